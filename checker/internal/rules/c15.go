package rules

import (
	"fmt"
	"strings"

	"golang.org/x/tools/go/ssa"

	"hapverif/internal/core"
)

func init() {
	register(&core.Property{
		ID:          "C15",
		Title:       "Each TLS host is served with the certificate its Ingress declares, else default",
		Explanation: "Static decision of the certificate assignment mechanism: (1) a host's certificate fields are written only while no certificate is assigned (first declaration, in creation order, wins) — in the Ingress converter and in the Gateway converter; (2) addTLS returns the secret's certificate only on the nil-error edge of the permission-checked read, and otherwise the default certificate, which only readDefaultCertificate writes; (3) the cache getter fails for a secret without certificate/key, passes the certificate permission bit and the reader's namespace, and links the reader before reading (so a secret created, fixed or rotated later re-syncs exactly its readers); (4) the Ingress that declares spec.tls for a host is linked to that host; (5) the crt-list starts with the default certificate's `!*` entry and every host with a custom certificate or TLS option gets a line naming its own file; (6) an in-place rotation is attempted iff only the certificate content changed.",
		NotDecided:  []string{"SNI selection by HAProxy on the rendered crt-list", "x509 parsing of secrets"},
		Rules: []*core.Rule{
			{ID: "C15.first-wins", Floor: 4, Run: c15FirstWins, Doc: "Stores to Host.TLS.{TLSFilename,TLSHash} happen only on the `no certificate yet` edge (TLSHash == \"\"), or for the same certificate (gateway: same hash)."},
			{ID: "C15.fallback", Floor: 3, Run: c15Fallback, Doc: "addTLS returns GetTLSSecretPath's file on its nil-error edge, else converter.defaultCrt; defaultCrt is written only by readDefaultCertificate (secret or fake)."},
			{ID: "C15.malformed", Floor: 2, Run: c15Malformed, Doc: "GetTLSSecretPath returns an error when the PEM file name is empty or the certificate did not parse, and on every error of resolution and read."},
			{ID: "C15.permission-bit", Floor: 8, Run: c09BitWiring, Doc: "Shared with C09: the certificate getter passes CrossNamespaceSecretCertificate and the reader's default namespace."},
			{ID: "C15.reader-linked", Floor: 5, Run: c01AcquireTrackedBase, Doc: "Shared with C01: the Ingress declaring spec.tls for a host is linked to the hostname (secret -> ingress -> host), and addTLS passes the Ingress as tracking reference."},
			{ID: "C15.track-first", Floor: 4, Run: c01CacheHonours, Doc: "Shared with C01: the getter records the link before the read and on its error exits."},
			{ID: "C15.crt-list", Floor: 3, Run: c15CrtList, Doc: "WriteFrontendMaps: the first crt-list entry is DefaultCrtFile + \" !*\"; a host line is appended iff the host's file differs from the default or a TLS option is set; the line names TLSFilename (or the default when empty)."},
			{ID: "C15.rotate", Floor: 1, Run: c15Rotate, Doc: "checkHostPair: execUpdateCert runs iff HasTLS && hash differs && file name equal."},
		},
	})
}

func c15FirstWins(c *core.Ctx) {
	// ingress
	if fn := c.Fn("converters/ingress", "converter.syncIngressHTTP"); fn != nil {
		for _, f := range []string{"TLSFilename", "TLSHash"} {
			for _, st := range fieldStores(fn, false, "haproxy/types.TLSConfig", f) {
				ok := guardedBy(st, has(`.TLS.TLSConfig.TLSHash == "")`), true)
				c.Check(ok, "syncIngressHTTP assigns "+f+" only to a host without certificate", at(c, st), "", "the certificate of a host can be replaced by a later Ingress: the first declaration no longer wins")
			}
		}
		// the value assigned is addTLS's result for that tls block's secret
		for _, st := range fieldStores(fn, false, "haproxy/types.TLSConfig", "TLSFilename") {
			l := sliceLeaves(c.Env, st.Val, 0)
			c.Check(leavesContain(l, "converter).addTLS"), "syncIngressHTTP assigns the declared secret's file", at(c, st), "", "assigned file does not come from addTLS: "+leavesList(l))
		}
		// addTLS gets the tls block's SecretName
		addTLS := c.Env.Func("converters/ingress", "converter.addTLS")
		for _, s := range core.Calls(fn, false) {
			if s.Common().StaticCallee() == addTLS {
				k := core.Key(s.Common().Args[2])
				c.Check(strings.HasSuffix(k, ".SecretName"), "syncIngressHTTP reads the tls block's secret", at(c, s.Instr), "", "addTLS receives `"+k+"`")
			}
		}
	}
	// gateway
	if fn := c.Fn("converters/gateway", "converter.applyCertRef"); fn != nil {
		n := 0
		for _, st := range fieldStores(fn, false, "haproxy/types.TLSConfig", "TLSHash") {
			n++
			gs := guardsOf(st)
			ok := false
			for _, g := range gs {
				k, b := g.Key, g.Branch
				if strings.Contains(k, `TLSHash == "")`) && b {
					ok = true
				}
				if strings.Contains(k, `TLSHash != "")`) && !b {
					ok = true
				}
				if strings.Contains(k, "TLSHash != ") && strings.Contains(k, ".SHA1Hash)") && !b {
					ok = true // same certificate
				}
			}
			// the `already assigned` test is an && of two conditions: the store is reached when either fails
			if !ok {
				t := core.ExtractTable(fn)
				if t.Err == "" {
					if cond, has := t.InstrCond(st); has {
						b, _, dup := bindDeps(t, cond, matchers{"has": func(k string) bool { return strings.HasSuffix(k, `TLSHash != "")`) }, "differs": func(k string) bool {
							return strings.Contains(k, "TLSHash != ") && strings.HasSuffix(k, ".SHA1Hash)")
						}})
						if dup == "" {
							nb := 0
							for _, n := range b.Names {
								if n != "" {
									nb++
								}
							}
							okc, _, _ := compareIgnoringLoopImplies(t, cond, b, func(v map[string]bool) bool { return !(v["has"] && v["differs"]) })
							ok = okc && nb == 2
						}
					}
				}
			}
			c.Check(ok, "applyCertRef assigns only when no other certificate is assigned", at(c, st), "", "a certificate already assigned to the host can be replaced by a different one")
		}
		if n == 0 {
			c.Violated("applyCertRef assigns certificates", c.Pos(fn.Pos()), "no store to TLSHash")
		}
	}
}

// compareIgnoringLoopImplies: cond => spec on all rows (unbound atoms free).
func compareIgnoringLoopImplies(t *core.Table, cond core.TT, b *core.Binding, spec func(v map[string]bool) bool) (bool, string, int) {
	return t.Compare(cond, b, func(v map[string]bool) bool { return false }, func(v map[string]bool) bool { return !spec(v) })
}

func c15Fallback(c *core.Ctx) {
	fn := c.Fn("converters/ingress", "converter.addTLS")
	if fn == nil {
		return
	}
	n := 0
	for _, ret := range core.Returns(fn) {
		n++
		v := core.Results(ret)[0]
		k := core.Key(v)
		switch {
		case strings.Contains(k, "GetTLSSecretPath(") && strings.HasSuffix(k, "#0"):
			ok := guardedBy(ret, has("GetTLSSecretPath(", "#1 == nil)"), true) || guardedBy(ret, has("GetTLSSecretPath(", "#1 != nil)"), false)
			c.Check(ok, "addTLS returns the secret's certificate only when the read succeeded", at(c, ret), "", "the result of a failed read is returned (an empty file name reaches the crt-list)")
		case strings.HasSuffix(k, "c.defaultCrt"):
			c.Held("addTLS falls back to the default certificate", at(c, ret), "")
		default:
			c.Violated("addTLS result", at(c, ret), "addTLS returns `"+k+"`: neither the declared secret nor the default certificate")
		}
	}
	if n < 2 {
		c.Violated("addTLS has a fallback", c.Pos(fn.Pos()), "fewer than two returns")
	}
	// the track reference is the Ingress itself
	for _, s := range core.Calls(fn, false) {
		if s.Common().IsInvoke() && s.Common().Method.Name() == "GetTLSSecretPath" {
			l := sliceLeaves(c.Env, s.Common().Args[2], 0)
			c.Check(leavesContain(l, "source.Type") && leavesContain(l, "Source).FullName"), "addTLS tracks the declaring Ingress", at(c, s.Instr), "", "the tracking reference is not (source.Type, source.FullName()): "+leavesList(l))
		}
	}
	ws := writersOf(c.Env, "converters/ingress.converter", "defaultCrt")
	var names []string
	for f := range ws {
		names = append(names, f)
	}
	c.Check(len(names) == 1 && strings.HasSuffix(names[0], "readDefaultCertificate"), "defaultCrt has one writer", "", "", "writers: "+strings.Join(names, ", "))
	if f := c.Fn("converters/ingress", "converter.readDefaultCertificate"); f != nil {
		for _, st := range fieldStores(f, false, "converters/ingress.converter", "defaultCrt") {
			l := sliceLeaves(c.Env, st.Val, 0)
			c.Check(leavesContain(l, "options.FakeCrtFile") && leavesContain(l, "GetTLSSecretPath"), "default certificate is the configured secret or the fake one", at(c, st), "", leavesList(l))
		}
	}
}

func c15Malformed(c *core.Ctx) {
	c15MalformedIn(c, "controller/services", "c.GetTLSSecretPath", "")
	c15MalformedIn(c, "controller/legacy", "k8scache.GetTLSSecretPath", "legacy ")
}

func c15MalformedIn(c *core.Ctx, pkg, name, pfx string) {
	fn := c.Fn(pkg, name)
	if fn == nil {
		return
	}
	// every return with a nil error whose file derives from sslCert: must be past the malformed test
	n := 0
	for _, ret := range core.Returns(fn) {
		res := core.Results(ret)
		if !core.IsNilConst(res[1]) {
			continue
		}
		l := sliceLeaves(c.Env, res[0], 0)
		if !leavesContain(l, "getCertificate") && !leavesContain(l, "GetCertificate") {
			continue // file:// branch
		}
		n++
		w := core.PathQuery{Fn: fn, Target: func(in ssa.Instruction) bool { return in == ssa.Instruction(ret) }, EdgeOK: func(from *ssa.BasicBlock, succ int) bool {
			if ifi, ok := from.Instrs[len(from.Instrs)-1].(*ssa.If); ok {
				k := core.Key(ifi.Cond)
				// both tests must be passed on their false edges: forbid passing them
				if strings.Contains(k, `.PemFileName == "")`) || strings.Contains(k, ".Certificate == nil)") {
					return succ == 0
				}
			}
			return true
		}}.Find()
		// w != nil means: reached the success return while taking only TRUE edges of the tests -> impossible; we need both false edges.
		_ = w
		t := core.ExtractTable(fn)
		if t.Err != "" {
			c.Undecided(pfx+"GetTLSSecretPath rejects a secret without certificate", at(c, ret), t.Err)
			continue
		}
		b, err := t.Bind(matchers{"nofile": has(`.PemFileName == "")`), "nocrt": has(".Certificate == nil)")})
		if err != nil {
			c.Violated(pfx+"GetTLSSecretPath rejects a secret without certificate", at(c, ret), "the tests `PemFileName == \"\"` / `Certificate == nil` are not both present: "+err.Error())
			continue
		}
		cond, _ := t.InstrCond(ret)
		ok, diff, _ := t.Compare(cond, b, func(v map[string]bool) bool { return false }, func(v map[string]bool) bool { return v["nofile"] || v["nocrt"] })
		c.Check(ok, pfx+"GetTLSSecretPath rejects a secret without certificate", at(c, ret), "success is returned only when a PEM file and a parsed certificate exist", "a secret without tls.crt/tls.key (or unparsable) is returned as a valid certificate: "+diff)
	}
	if n == 0 {
		c.Violated(pfx+"GetTLSSecretPath success return", c.Pos(fn.Pos()), "not found")
	}
	// every error of resolve/read is returned
	for _, s := range core.Calls(fn, false) {
		cn := core.CalleeName(s.Common())
		if s.Common().IsInvoke() && s.Common().Method.Name() == "GetCertificate" {
			cn = "iface.GetCertificate"
		}
		if strings.HasSuffix(cn, ".getCertificate") || strings.HasSuffix(cn, ".GetCertificate") || strings.HasSuffix(cn, ".buildResourceName") {
			base := cn[strings.LastIndex(cn, ".")+1:]
			ok := false
			for _, ret := range core.Returns(fn) {
				res := core.Results(ret)
				l := sliceLeaves(c.Env, res[1], 0)
				if leavesContain(l, base+"#") && guardedBy(ret, has(base+"(", " != nil)"), true) {
					ok = true
				}
			}
			c.Check(ok, pfx+"GetTLSSecretPath returns the error of "+base, at(c, s.Instr), "", "the error of "+base+" is not returned: addTLS would not fall back to the default certificate")
		}
	}
}

func c15CrtList(c *core.Ctx) {
	fn := c.Fn("haproxy", "config.WriteFrontendMaps")
	if fn == nil {
		return
	}
	// appends to the crt list: calls to append whose result type is []*HostsMapEntry
	var apps []*ssa.Call
	for _, b := range fn.Blocks {
		for _, in := range b.Instrs {
			if call, ok := in.(*ssa.Call); ok && core.CalleeName(&call.Call) == "builtin:append" && strings.HasSuffix(call.Type().String(), "haproxy/types.HostsMapEntry") {
				apps = append(apps, call)
			}
		}
	}
	if len(apps) < 2 {
		c.Violated("crt-list is built", c.Pos(fn.Pos()), fmt.Sprintf("%d appends to the crt-list", len(apps)))
		return
	}
	// the first: DefaultCrtFile + " !*", appended to a nil list, dominating the others
	first := apps[0]
	l := sliceLeaves(c.Env, first.Call.Args[1], 0)
	okFirst := leavesContain(l, "frontend.DefaultCrtFile") && leavesContain(l, `const:" !*"`) && core.IsNilConst(first.Call.Args[0])
	for _, a := range apps[1:] {
		if !first.Block().Dominates(a.Block()) {
			okFirst = false
		}
	}
	c.Check(okFirst, "crt-list starts with the default certificate", at(c, first), "first entry is DefaultCrtFile + \" !*\"", "the first crt-list entry is not the default certificate with the `!*` filter: unknown SNI names get another host's certificate")
	// host line condition
	for _, a := range apps[1:] {
		t := core.ExtractTableFrom(fn, nil, nil)
		_ = t
		// the append's guards: reach only if (crtFile != default || alpn || ca || ciphers || suites || options)
		// decided through the region dominated by the loop body block that loads host.TLS
		gs := guardsOf(a)
		_ = gs
		lv := sliceLeaves(c.Env, a.Call.Args[1], 0)
		okName := leavesContain(lv, "TLSFilename") && leavesContain(lv, "frontend.DefaultCrtFile") && leavesContain(lv, ".Hostname")
		c.Check(okName, "crt-list host line names the host's own file", at(c, a), "line = (TLSFilename or default) + options + Hostname", "host line is not built from the host's TLSFilename (default when empty) and Hostname: "+leavesList(lv))
		// find the block that computes crtFile phi; region from there
		var root *ssa.BasicBlock
		for d := a.Block(); d != nil; d = d.Idom() {
			for _, in := range d.Instrs {
				if bo, ok := in.(*ssa.BinOp); ok && strings.Contains(core.Key(bo), "DefaultCrtFile)") && strings.Contains(core.Key(bo), "TLSFilename") && bo.Op.String() == "!=" {
					root = d
				}
			}
			if root != nil {
				break
			}
		}
		if root == nil {
			c.Undecided("crt-list host line condition", at(c, a), "cannot find the `crtFile != DefaultCrtFile` test")
			continue
		}
		tr := core.ExtractTableFrom(fn, root, core.DominatedBy(root))
		if tr.Err != "" {
			c.Undecided("crt-list host line condition", at(c, a), tr.Err)
			continue
		}
		cond, ok := tr.InstrCond(a)
		if !ok {
			c.Undecided("crt-list host line condition", at(c, a), "append not in region")
			continue
		}
		b, err := tr.Bind(matchers{
			"custom": func(k string) bool {
				return strings.HasSuffix(k, "c.frontend.DefaultCrtFile)") && strings.Contains(k, " != ")
			},
			"alpn":    func(k string) bool { return strings.HasSuffix(k, `.ALPN != "")`) },
			"ca":      func(k string) bool { return strings.HasSuffix(k, `.CAFilename != "")`) },
			"ciphers": func(k string) bool { return strings.HasSuffix(k, `.Ciphers != "")`) },
			"suites":  func(k string) bool { return strings.HasSuffix(k, `.CipherSuites != "")`) },
			"options": func(k string) bool { return strings.HasSuffix(k, `.Options != "")`) },
		})
		if err != nil {
			c.Undecided("crt-list host line condition", at(c, a), err.Error())
			continue
		}
		good, diff, _ := tr.Compare(cond, b, func(v map[string]bool) bool {
			return v["custom"] || v["alpn"] || v["ca"] || v["ciphers"] || v["suites"] || v["options"]
		}, nil)
		c.Check(good, "crt-list host line condition", at(c, a), "a line is written iff the host has its own certificate or a TLS option", "wrong condition: "+diff+" — a host with a declared certificate gets no line and is served the default one")
	}
}

func c15Rotate(c *core.Ctx) {
	fn := c.Fn("haproxy", "dynUpdater.checkHostPair")
	if fn == nil {
		return
	}
	t := core.ExtractTable(fn)
	for _, s := range core.Calls(fn, false) {
		if !strings.HasSuffix(core.CalleeName(s.Common()), "dynUpdater).execUpdateCert") {
			continue
		}
		b, err := t.Bind(matchers{
			"hastls":   has("HasTLS("),
			"hashdiff": has(".TLSHash != ", "~DeepEqual"),
			"samefile": has(".TLSFilename == "),
		})
		if t.Err != "" || err != nil {
			c.Undecided("checkHostPair rotates in place", at(c, s.Instr), fmt.Sprint(t.Err, err))
			continue
		}
		cond, _ := t.InstrCond(s.Instr)
		bind2 := &core.Binding{Names: append([]string(nil), b.Names...)}
		bad := ""
		for i, a := range t.Atoms {
			if bind2.Names[i] == "" && cond.DependsOn(i) {
				bad = a
			}
		}
		if bad != "" {
			c.Violated("checkHostPair rotates in place", at(c, s.Instr), "the rotation also depends on `"+bad+"`")
			continue
		}
		ok, diff, _ := t.Compare(cond, b, func(v map[string]bool) bool { return v["hastls"] && v["hashdiff"] && v["samefile"] }, nil)
		c.Check(ok, "checkHostPair rotates in place", at(c, s.Instr), "execUpdateCert iff HasTLS && hash differs && same file", diff)
		// arguments: the current host's file
		k := core.Key(s.Common().Args[2])
		c.Check(strings.Contains(k, "cur.TLS") && strings.HasSuffix(k, "TLSFilename"), "rotation updates the current host's file", at(c, s.Instr), "", "execUpdateCert receives `"+k+"`")
	}
}
