package core

import (
	"fmt"
	"os"
	"path/filepath"
	"regexp"
	"sort"
	"strings"
	"text/template/parse"
)

// Template reader (DESIGN §2-E10): the HAProxy template is parsed, never
// executed. Text nodes are visited with the stack of enclosing if/range/with
// pipelines ("guards").

// Tmpl is the parsed template file.
type Tmpl struct {
	File  string
	Trees map[string]*parse.Tree
	src   string
}

// LoadTemplate parses a template of the repository (overlay aware).
func (e *Env) LoadTemplate(rel string) (*Tmpl, error) {
	path := filepath.Join(e.RepoDir, rel)
	var b []byte
	if ov, ok := e.Overlay[path]; ok {
		b = ov
	} else {
		var err error
		b, err = os.ReadFile(path)
		if err != nil {
			return nil, err
		}
	}
	trees := map[string]*parse.Tree{}
	t := parse.New(filepath.Base(rel))
	t.Mode = parse.SkipFuncCheck
	if _, err := t.Parse(string(b), "", "", trees); err != nil {
		return nil, fmt.Errorf("%s: %w", rel, err)
	}
	return &Tmpl{File: rel, Trees: trees, src: string(b)}, nil
}

// Guard is one enclosing control construct.
type Guard struct {
	Kind string // if | else | range | with
	Pipe string
}

func (g Guard) String() string { return g.Kind + " " + g.Pipe }

// TNode is a visited node with its guards.
type TNode struct {
	Tree   string
	Node   parse.Node
	Guards []Guard
	Line   int
}

// Walk visits every node of tree `name` in document order.
func (t *Tmpl) Walk(name string, visit func(n TNode)) {
	tree := t.Trees[name]
	if tree == nil || tree.Root == nil {
		return
	}
	var walk func(n parse.Node, g []Guard)
	walkList := func(l *parse.ListNode, g []Guard) {
		if l == nil {
			return
		}
		for _, n := range l.Nodes {
			walk(n, g)
		}
	}
	walk = func(n parse.Node, g []Guard) {
		if n == nil {
			return
		}
		visit(TNode{Tree: name, Node: n, Guards: append([]Guard(nil), g...), Line: t.line(n)})
		switch x := n.(type) {
		case *parse.ListNode:
			walkList(x, g)
		case *parse.IfNode:
			walkList(x.List, append(g, Guard{"if", x.Pipe.String()}))
			walkList(x.ElseList, append(g, Guard{"else", x.Pipe.String()}))
		case *parse.RangeNode:
			walkList(x.List, append(g, Guard{"range", x.Pipe.String()}))
			walkList(x.ElseList, append(g, Guard{"else", x.Pipe.String()}))
		case *parse.WithNode:
			walkList(x.List, append(g, Guard{"with", x.Pipe.String()}))
			walkList(x.ElseList, append(g, Guard{"else", x.Pipe.String()}))
		}
	}
	walk(tree.Root, nil)
}

func (t *Tmpl) line(n parse.Node) int {
	pos := int(n.Position())
	if pos > len(t.src) {
		pos = len(t.src)
	}
	return 1 + strings.Count(t.src[:pos], "\n")
}

// TreeNames lists the defined templates.
func (t *Tmpl) TreeNames() []string {
	var out []string
	for k := range t.Trees {
		out = append(out, k)
	}
	sort.Strings(out)
	return out
}

var directiveRe = regexp.MustCompile(`(?m)^\s*(backend|frontend|listen|userlist|use_backend|default_backend)\s+(\S+)`)

// Directive is a section or reference directive found in a text node.
type Directive struct {
	Tree    string
	Keyword string
	Name    string // literal name, or "" when the name is produced by an action
	Guards  []Guard
	Line    int
}

// Directives extracts section/reference directives of all trees. A directive
// whose keyword ends a text node (name rendered by the following action) is
// reported with Name "".
func (t *Tmpl) Directives() []Directive {
	var out []Directive
	kwEnd := regexp.MustCompile(`(?m)^\s*(backend|frontend|listen|userlist|use_backend|default_backend)\s+$`)
	for name := range t.Trees {
		t.Walk(name, func(n TNode) {
			tx, ok := n.Node.(*parse.TextNode)
			if !ok {
				return
			}
			s := string(tx.Text)
			for _, m := range directiveRe.FindAllStringSubmatch(s, -1) {
				out = append(out, Directive{Tree: name, Keyword: m[1], Name: m[2], Guards: n.Guards, Line: n.Line})
			}
			if m := kwEnd.FindStringSubmatch(lastLine(s)); m != nil {
				out = append(out, Directive{Tree: name, Keyword: m[1], Name: "", Guards: n.Guards, Line: n.Line})
			}
		})
	}
	return out
}

func lastLine(s string) string {
	if i := strings.LastIndex(s, "\n"); i >= 0 {
		return s[i+1:]
	}
	return s
}

// GuardStrings renders guards.
func GuardStrings(g []Guard) []string {
	var out []string
	for _, x := range g {
		out = append(out, x.String())
	}
	return out
}

// ReadRepoFile reads a non-Go file of the repository (honouring the overlay).
func (e *Env) ReadRepoFile(rel string) ([]byte, error) {
	path := filepath.Join(e.RepoDir, rel)
	if ov, ok := e.Overlay[path]; ok {
		return ov, nil
	}
	return os.ReadFile(path)
}
