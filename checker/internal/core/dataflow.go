package core

import "golang.org/x/tools/go/ssa"

// StateSet is a set of up to 64 abstract states.
type StateSet uint64

// Has reports membership.
func (s StateSet) Has(i int) bool { return s>>uint(i)&1 == 1 }

// States lists members.
func (s StateSet) States() []int {
	var out []int
	for i := 0; i < 64; i++ {
		if s.Has(i) {
			out = append(out, i)
		}
	}
	return out
}

// Forward runs a forward may-analysis over the CFG of fn (a finite typestate
// dataflow: union at joins, fixed point). instr maps a state across an
// instruction; edge maps a state across a CFG edge and may drop it.
// It returns the state sets at block entry and the state set reaching each
// instruction (before it executes).
type Forward struct {
	Fn    *ssa.Function
	Start *ssa.BasicBlock // nil = entry
	Init  StateSet
	Instr func(in ssa.Instruction, s int) int
	Edge  func(from *ssa.BasicBlock, succ int, s int) (int, bool)
}

// Run computes the fixed point. before[in] is the set of states before instruction in.
func (f Forward) Run() (blockIn map[*ssa.BasicBlock]StateSet, before map[ssa.Instruction]StateSet, blockOut map[*ssa.BasicBlock]StateSet) {
	blockIn = map[*ssa.BasicBlock]StateSet{}
	blockOut = map[*ssa.BasicBlock]StateSet{}
	before = map[ssa.Instruction]StateSet{}
	start := f.Start
	if start == nil {
		start = f.Fn.Blocks[0]
	}
	blockIn[start] = f.Init
	work := []*ssa.BasicBlock{start}
	inWork := map[*ssa.BasicBlock]bool{start: true}
	for len(work) > 0 {
		b := work[0]
		work = work[1:]
		inWork[b] = false
		cur := blockIn[b]
		for _, in := range b.Instrs {
			before[in] |= cur
			var next StateSet
			for _, s := range cur.States() {
				next |= 1 << uint(f.Instr(in, s))
			}
			cur = next
		}
		blockOut[b] = cur
		for k, succ := range b.Succs {
			var prop StateSet
			for _, s := range cur.States() {
				ns, ok := s, true
				if f.Edge != nil {
					ns, ok = f.Edge(b, k, s)
				}
				if ok {
					prop |= 1 << uint(ns)
				}
			}
			if prop&^blockIn[succ] != 0 {
				blockIn[succ] |= prop
				if !inWork[succ] {
					inWork[succ] = true
					work = append(work, succ)
				}
			}
		}
	}
	return
}

// IsBackEdge reports whether the edge from->to goes to a dominator (loop back edge).
func IsBackEdge(from, to *ssa.BasicBlock) bool { return to.Dominates(from) }
