// Package core loads the repository under analysis (type-checked syntax, SSA,
// call graph) and offers the lookups the rules are written against. Nothing in
// here runs code of the repository: it is parsed, type-checked and lowered to
// SSA only.
package core

import (
	"fmt"
	"go/ast"
	"go/token"
	"go/types"
	"os"
	"path/filepath"
	"sort"
	"strings"
	"sync"

	"golang.org/x/tools/go/callgraph"
	"golang.org/x/tools/go/callgraph/cha"
	"golang.org/x/tools/go/callgraph/vta"
	"golang.org/x/tools/go/packages"
	"golang.org/x/tools/go/ssa"
	"golang.org/x/tools/go/ssa/ssautil"
)

// Module is the import path prefix of the repository under analysis.
const Module = "github.com/jcmoraisjr/haproxy-ingress"

// Env is the loaded program.
type Env struct {
	RepoDir string
	Fset    *token.FileSet
	Pkgs    []*packages.Package
	ByPath  map[string]*packages.Package
	Prog    *ssa.Program
	SSA     map[string]*ssa.Package
	Overlay map[string][]byte

	cgOnce sync.Once
	cg     *callgraph.Graph
	chaG   *callgraph.Graph

	srcFuncsOnce sync.Once
	srcFuncs     []*ssa.Function

	fileCache map[string][]string
}

// Load type-checks ./pkg/... of the repository and builds SSA for it.
func Load(repoDir string, overlay map[string][]byte) (*Env, error) {
	os.Unsetenv("GOWORK")
	fset := token.NewFileSet()
	cfg := &packages.Config{
		Mode: packages.NeedName | packages.NeedFiles | packages.NeedCompiledGoFiles |
			packages.NeedImports | packages.NeedTypes | packages.NeedTypesSizes |
			packages.NeedSyntax | packages.NeedTypesInfo,
		Dir:     repoDir,
		Fset:    fset,
		Tests:   false,
		Overlay: overlay,
		Env: append(os.Environ(), "GOFLAGS=-mod=mod", "GOPROXY=off", "GOSUMDB=off",
			"GOTOOLCHAIN=local", "GOWORK=off"),
	}
	pkgs, err := packages.Load(cfg, "./pkg/...")
	if err != nil {
		return nil, fmt.Errorf("packages.Load: %w", err)
	}
	if len(pkgs) == 0 {
		return nil, fmt.Errorf("no packages loaded from %s", repoDir)
	}
	var errs []string
	for _, p := range pkgs {
		if !strings.HasPrefix(p.PkgPath, Module) {
			continue
		}
		for _, e := range p.Errors {
			errs = append(errs, e.Error())
		}
		if p.Types == nil || p.TypesInfo == nil || len(p.Syntax) == 0 && len(p.GoFiles) > 0 {
			errs = append(errs, "package not type-checked from source: "+p.PkgPath)
		}
	}
	if len(errs) > 0 {
		sort.Strings(errs)
		if len(errs) > 10 {
			errs = errs[:10]
		}
		return nil, fmt.Errorf("type errors in repository packages: %s", strings.Join(errs, "; "))
	}
	env := &Env{RepoDir: repoDir, Fset: fset, ByPath: map[string]*packages.Package{}, SSA: map[string]*ssa.Package{}, Overlay: overlay, fileCache: map[string][]string{}}
	for _, p := range pkgs {
		if strings.HasPrefix(p.PkgPath, Module) {
			env.Pkgs = append(env.Pkgs, p)
			env.ByPath[p.PkgPath] = p
		}
	}
	sort.Slice(env.Pkgs, func(i, j int) bool { return env.Pkgs[i].PkgPath < env.Pkgs[j].PkgPath })
	prog, spkgs := ssautil.Packages(pkgs, ssa.InstantiateGenerics)
	prog.Build()
	env.Prog = prog
	for i, p := range pkgs {
		if spkgs[i] != nil {
			env.SSA[p.PkgPath] = spkgs[i]
		}
	}
	return env, nil
}

// P expands a short package name ("converters/ingress") to the import path.
func P(short string) string { return Module + "/pkg/" + short }

// Pkg returns the syntax package, or nil.
func (e *Env) Pkg(short string) *packages.Package { return e.ByPath[P(short)] }

// SrcFuncs lists every function of the repository packages with a body,
// including anonymous functions, sorted by name.
func (e *Env) SrcFuncs() []*ssa.Function {
	e.srcFuncsOnce.Do(func() {
		seen := map[*ssa.Function]bool{}
		var add func(f *ssa.Function)
		add = func(f *ssa.Function) {
			if f == nil || seen[f] || f.Blocks == nil {
				return
			}
			seen[f] = true
			e.srcFuncs = append(e.srcFuncs, f)
			for _, a := range f.AnonFuncs {
				add(a)
			}
		}
		for path, sp := range e.SSA {
			if !strings.HasPrefix(path, Module) {
				continue
			}
			for _, m := range sp.Members {
				switch m := m.(type) {
				case *ssa.Function:
					add(m)
				case *ssa.Type:
					if nt, ok := m.Type().(*types.Named); ok {
						// declared methods, including those of generic types
						for i := 0; i < nt.NumMethods(); i++ {
							add(e.Prog.FuncValue(nt.Method(i)))
						}
						if nt.TypeParams().Len() > 0 {
							continue
						}
					}
					for _, t := range []types.Type{m.Type(), types.NewPointer(m.Type())} {
						ms := e.Prog.MethodSets.MethodSet(t)
						for i := 0; i < ms.Len(); i++ {
							if fn := e.Prog.MethodValue(ms.At(i)); fn != nil && fn.Synthetic == "" {
								add(fn)
							}
						}
					}
				}
			}
		}
		sort.Slice(e.srcFuncs, func(i, j int) bool { return FuncName(e.srcFuncs[i]) < FuncName(e.srcFuncs[j]) })
	})
	return e.srcFuncs
}

// FuncName is the stable display name: "<short pkg>.<func>" e.g.
// "converters/ingress.(*converter).syncPartial" or "...syncIngressTCP$1".
func FuncName(f *ssa.Function) string {
	if f == nil {
		return "<nil>"
	}
	s := f.String()
	s = strings.ReplaceAll(s, Module+"/pkg/", "")
	return s
}

// Func finds a function by short package and name. name is either a plain
// function name ("sortIngress"), "(*T).m" / "(T).m" / "T.m" for a method, and
// may end in "$N" to select an anonymous function.
func (e *Env) Func(short, name string) *ssa.Function {
	sp := e.SSA[P(short)]
	if sp == nil {
		return nil
	}
	anon := ""
	if i := strings.Index(name, "$"); i >= 0 {
		anon = name[i:]
		name = name[:i]
	}
	var fn *ssa.Function
	if strings.Contains(name, ".") {
		recv := name[:strings.LastIndex(name, ".")]
		meth := name[strings.LastIndex(name, ".")+1:]
		recv = strings.Trim(recv, "()*")
		tm, _ := sp.Members[recv].(*ssa.Type)
		if tm == nil {
			return nil
		}
		obj, _, _ := types.LookupFieldOrMethod(types.NewPointer(tm.Type()), true, sp.Pkg, meth)
		if f, ok := obj.(*types.Func); ok {
			fn = e.Prog.FuncValue(f)
		}
	} else {
		fn, _ = sp.Members[name].(*ssa.Function)
	}
	if fn == nil {
		return nil
	}
	for anon != "" {
		// "$1$2" style
		rest := anon[1:]
		next := ""
		if i := strings.Index(rest, "$"); i >= 0 {
			next = rest[i:]
			rest = rest[:i]
		}
		var n int
		fmt.Sscanf(rest, "%d", &n)
		if n < 1 || n > len(fn.AnonFuncs) {
			return nil
		}
		fn = fn.AnonFuncs[n-1]
		anon = next
	}
	return fn
}

// MethodObj finds the *types.Func of a method of a named (possibly interface) type.
func (e *Env) MethodObj(short, typ, meth string) *types.Func {
	p := e.ByPath[P(short)]
	if p == nil {
		return nil
	}
	obj := p.Types.Scope().Lookup(typ)
	if obj == nil {
		return nil
	}
	o, _, _ := types.LookupFieldOrMethod(types.NewPointer(obj.Type()), true, p.Types, meth)
	if o == nil {
		o, _, _ = types.LookupFieldOrMethod(obj.Type(), true, p.Types, meth)
	}
	f, _ := o.(*types.Func)
	return f
}

// NamedType looks up a named type.
func (e *Env) NamedType(short, typ string) *types.Named {
	p := e.ByPath[P(short)]
	if p == nil {
		return nil
	}
	obj := p.Types.Scope().Lookup(typ)
	if obj == nil {
		return nil
	}
	n, _ := obj.Type().(*types.Named)
	return n
}

// CallGraph returns the VTA call graph (built lazily).
func (e *Env) CallGraph() *callgraph.Graph {
	e.cgOnce.Do(func() {
		all := ssautil.AllFunctions(e.Prog)
		e.chaG = cha.CallGraph(e.Prog)
		e.cg = vta.CallGraph(all, e.chaG)
	})
	return e.cg
}

// CHAGraph returns the CHA call graph.
func (e *Env) CHAGraph() *callgraph.Graph {
	e.CallGraph()
	return e.chaG
}

// Pos renders a position relative to the repository root.
func (e *Env) Pos(p token.Pos) string {
	if !p.IsValid() {
		return "?"
	}
	pos := e.Fset.Position(p)
	rel, err := filepath.Rel(e.RepoDir, pos.Filename)
	if err != nil {
		rel = pos.Filename
	}
	return fmt.Sprintf("%s:%d", rel, pos.Line)
}

// InstrPos gives the best position of an instruction (falls back to block
// neighbours and the function position).
func (e *Env) InstrPos(in ssa.Instruction) string {
	if in == nil {
		return "?"
	}
	if p := in.Pos(); p.IsValid() {
		return e.Pos(p)
	}
	if v, ok := in.(ssa.Value); ok {
		_ = v
	}
	b := in.Block()
	if b != nil {
		idx := -1
		for i, x := range b.Instrs {
			if x == in {
				idx = i
			}
		}
		for i := idx - 1; i >= 0; i-- {
			if p := b.Instrs[i].Pos(); p.IsValid() {
				return e.Pos(p) + "+"
			}
		}
		for i := idx + 1; i < len(b.Instrs); i++ {
			if p := b.Instrs[i].Pos(); p.IsValid() {
				return e.Pos(p) + "-"
			}
		}
	}
	if f := in.Parent(); f != nil {
		return e.Pos(f.Pos()) + "~"
	}
	return "?"
}

// FuncDecl finds the syntax of a named function/method.
func (e *Env) FuncDecl(fn *ssa.Function) *ast.FuncDecl {
	if fn == nil {
		return nil
	}
	if d, ok := fn.Syntax().(*ast.FuncDecl); ok {
		return d
	}
	return nil
}

// TypesInfo returns the types.Info of the package holding fn.
func (e *Env) TypesInfo(fn *ssa.Function) *types.Info {
	for fn.Parent() != nil {
		fn = fn.Parent()
	}
	if fn.Pkg == nil {
		return nil
	}
	if p := e.ByPath[fn.Pkg.Pkg.Path()]; p != nil {
		return p.TypesInfo
	}
	return nil
}

// PkgOf returns the short package path ("converters/ingress") of fn.
func PkgOf(fn *ssa.Function) string {
	for fn != nil && fn.Parent() != nil {
		fn = fn.Parent()
	}
	if fn == nil {
		return ""
	}
	if fn.Pkg != nil {
		return strings.TrimPrefix(fn.Pkg.Pkg.Path(), Module+"/pkg/")
	}
	if o := fn.Origin(); o != nil && o.Pkg != nil {
		return strings.TrimPrefix(o.Pkg.Pkg.Path(), Module+"/pkg/")
	}
	return ""
}
