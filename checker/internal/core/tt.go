package core

import (
	"fmt"
	"go/token"
	"go/types"
	"sort"
	"strings"

	"golang.org/x/tools/go/ssa"
)

// Decision-table extraction (DESIGN §2-E2): a forward dataflow over an acyclic
// SSA region whose lattice is the Boolean algebra over "atoms". No path is
// enumerated, nothing is executed, no solver is used.

// MaxAtoms bounds the table width.
const MaxAtoms = 16

// TT is a truth table over n atoms: bit r is the value on row r, where bit i of
// r is the value of atom i.
type TT struct {
	n    int
	bits []uint64
}

func newTT(n int, val bool) TT {
	rows := 1 << uint(n)
	w := (rows + 63) / 64
	t := TT{n, make([]uint64, w)}
	if val {
		for i := range t.bits {
			t.bits[i] = ^uint64(0)
		}
		t.trim()
	}
	return t
}

func (t *TT) trim() {
	rows := 1 << uint(t.n)
	if rows < 64 {
		t.bits[0] &= (uint64(1) << uint(rows)) - 1
	}
}

func atomTT(n, i int) TT {
	t := newTT(n, false)
	rows := 1 << uint(n)
	for r := 0; r < rows; r++ {
		if r>>uint(i)&1 == 1 {
			t.bits[r/64] |= 1 << uint(r%64)
		}
	}
	return t
}

func (t TT) And(o TT) TT {
	r := TT{t.n, make([]uint64, len(t.bits))}
	for i := range t.bits {
		r.bits[i] = t.bits[i] & o.bits[i]
	}
	return r
}
func (t TT) Or(o TT) TT {
	r := TT{t.n, make([]uint64, len(t.bits))}
	for i := range t.bits {
		r.bits[i] = t.bits[i] | o.bits[i]
	}
	return r
}
func (t TT) Not() TT {
	r := TT{t.n, make([]uint64, len(t.bits))}
	for i := range t.bits {
		r.bits[i] = ^t.bits[i]
	}
	r.trim()
	return r
}
func (t TT) Xnor(o TT) TT { return t.And(o).Or(t.Not().And(o.Not())) }
func (t TT) Eq(o TT) bool {
	for i := range t.bits {
		if t.bits[i] != o.bits[i] {
			return false
		}
	}
	return true
}
func (t TT) IsFalse() bool {
	for _, b := range t.bits {
		if b != 0 {
			return false
		}
	}
	return true
}
func (t TT) IsTrue() bool { return t.Not().IsFalse() }
func (t TT) Row(r int) bool {
	return t.bits[r/64]>>uint(r%64)&1 == 1
}

// DependsOn reports whether the table's value changes with atom i.
func (t TT) DependsOn(i int) bool {
	rows := 1 << uint(t.n)
	for r := 0; r < rows; r++ {
		if r>>uint(i)&1 == 0 {
			if t.Row(r) != t.Row(r|1<<uint(i)) {
				return true
			}
		}
	}
	return false
}

// Table is the result of analysing one function (or region).
type Table struct {
	Fn      *ssa.Function
	Atoms   []string // canonical keys, index = atom number
	atomV   []ssa.Value
	val     map[ssa.Value]TT
	cond    map[*ssa.BasicBlock]TT
	back    map[[2]*ssa.BasicBlock]bool
	n       int
	Err     string
	valOf   func(ssa.Value) TT
	include func(*ssa.BasicBlock) bool
	root    *ssa.BasicBlock
}

// Extract builds the table for fn. Back edges (edges to a dominator) are cut:
// values carried around a loop become fresh atoms.
func ExtractTable(fn *ssa.Function) *Table { return ExtractTableRegion(fn, nil) }

// NearEntry builds a region predicate: blocks at most depth CFG edges from entry.
func NearEntry(fn *ssa.Function, depth int) func(*ssa.BasicBlock) bool {
	dist := map[*ssa.BasicBlock]int{}
	if fn != nil && len(fn.Blocks) > 0 {
		dist[fn.Blocks[0]] = 0
		q := []*ssa.BasicBlock{fn.Blocks[0]}
		for len(q) > 0 {
			b := q[0]
			q = q[1:]
			for _, s := range b.Succs {
				if _, ok := dist[s]; !ok {
					dist[s] = dist[b] + 1
					q = append(q, s)
				}
			}
		}
	}
	return func(b *ssa.BasicBlock) bool {
		d, ok := dist[b]
		return ok && d <= depth
	}
}

// ExtractTableRegion is ExtractTable restricted to the blocks accepted by
// include (nil = all): other blocks are neither searched for atoms nor
// evaluated, so a long function can be analysed around the blocks of interest.
func ExtractTableRegion(fn *ssa.Function, include func(*ssa.BasicBlock) bool) *Table {
	return ExtractTableFrom(fn, nil, include)
}

// DominatedBy builds a region predicate: blocks dominated by root.
func DominatedBy(root *ssa.BasicBlock) func(*ssa.BasicBlock) bool {
	return func(b *ssa.BasicBlock) bool { return root.Dominates(b) }
}

// ExtractTableFrom starts the analysis at block root (nil = entry): conditions
// are relative to reaching root.
func ExtractTableFrom(fn *ssa.Function, root *ssa.BasicBlock, include func(*ssa.BasicBlock) bool) *Table {
	return ExtractTableFromExtra(fn, root, include)
}

// ExtractTableFromExtra additionally makes the given values atoms (values that
// enter the region from outside and are only used as phi operands of blocks
// outside the region, e.g. a flag carried around a loop).
func ExtractTableFromExtra(fn *ssa.Function, root *ssa.BasicBlock, include func(*ssa.BasicBlock) bool, extra ...ssa.Value) *Table {
	t := &Table{Fn: fn, val: map[ssa.Value]TT{}, cond: map[*ssa.BasicBlock]TT{}, back: map[[2]*ssa.BasicBlock]bool{}, include: include, root: root}
	if root == nil && fn != nil && len(fn.Blocks) > 0 {
		t.root = fn.Blocks[0]
	}
	if fn == nil || len(fn.Blocks) == 0 {
		t.Err = "no body"
		return t
	}
	for _, b := range fn.Blocks {
		for _, s := range b.Succs {
			if s.Dominates(b) {
				t.back[[2]*ssa.BasicBlock{b, s}] = true
			}
		}
	}
	// 1. atom discovery
	keyIdx := map[string]int{}
	stored := storedKeys(fn)
	var discover func(v ssa.Value)
	seen := map[ssa.Value]bool{}
	discover = func(v ssa.Value) {
		if seen[v] {
			return
		}
		seen[v] = true
		if !isBool(v.Type()) {
			return
		}
		switch x := v.(type) {
		case *ssa.Const:
			return
		case *ssa.UnOp:
			if x.Op == token.NOT {
				discover(x.X)
				return
			}
		case *ssa.BinOp:
			if (x.Op == token.EQL || x.Op == token.NEQ) && isBool(x.X.Type()) {
				discover(x.X)
				discover(x.Y)
				return
			}
		case *ssa.Phi:
			loop := false
			for i := range x.Edges {
				if t.back[[2]*ssa.BasicBlock{x.Block().Preds[i], x.Block()}] {
					loop = true
				}
			}
			if x.Block() == t.root && t.root != fn.Blocks[0] {
				loop = true // value enters the region from outside: opaque
			}
			if !loop {
				for _, e := range x.Edges {
					discover(e)
				}
				return
			}
		}
		k := Key(v)
		// equal keys denote equal values only when nothing in the function
		// stores to a path the expression loads from
		if readsStored(v, stored, 0) {
			k = fmt.Sprintf("%s@%s", k, v.Name())
		}
		if _, ok := v.(*ssa.Phi); ok {
			k = fmt.Sprintf("loopphi:%s", v.Name())
		}
		if _, ok := keyIdx[k]; !ok {
			keyIdx[k] = len(t.Atoms)
			t.Atoms = append(t.Atoms, k)
			t.atomV = append(t.atomV, v)
		}
	}
	for _, e := range extra {
		discover(e)
	}
	for _, b := range fn.Blocks {
		if include != nil && !include(b) {
			continue
		}
		for _, in := range b.Instrs {
			switch x := in.(type) {
			case *ssa.If:
				discover(x.Cond)
			case *ssa.Return:
				for _, r := range x.Results {
					discover(r)
				}
			case *ssa.Store:
				discover(x.Val)
			case *ssa.Phi:
				discover(x)
			case ssa.CallInstruction:
				for _, a := range x.Common().Args {
					discover(a)
				}
			}
		}
	}
	t.n = len(t.Atoms)
	if t.n > MaxAtoms {
		t.Err = fmt.Sprintf("%d atoms exceed the bound of %d", t.n, MaxAtoms)
		return t
	}
	// 2. evaluation in reverse post-order of the acyclic graph
	order := t.topo()
	var valOf func(v ssa.Value) TT
	valOf = func(v ssa.Value) TT {
		if tt, ok := t.val[v]; ok {
			return tt
		}
		var r TT
		switch x := v.(type) {
		case *ssa.Const:
			r = newTT(t.n, IsConstBool(x, true))
		case *ssa.UnOp:
			if x.Op == token.NOT {
				r = valOf(x.X).Not()
				break
			}
			r = t.atomOf(v, keyIdx, stored)
		case *ssa.BinOp:
			if (x.Op == token.EQL || x.Op == token.NEQ) && isBool(x.X.Type()) {
				r = valOf(x.X).Xnor(valOf(x.Y))
				if x.Op == token.NEQ {
					r = r.Not()
				}
				break
			}
			r = t.atomOf(v, keyIdx, stored)
		case *ssa.Phi:
			loop := false
			for i := range x.Edges {
				if t.back[[2]*ssa.BasicBlock{x.Block().Preds[i], x.Block()}] {
					loop = true
				}
			}
			if x.Block() == t.root && t.root != fn.Blocks[0] {
				loop = true
			}
			if loop {
				r = t.atomOf(v, keyIdx, stored)
				break
			}
			r = newTT(t.n, false)
			for i, e := range x.Edges {
				p := x.Block().Preds[i]
				r = r.Or(t.edgeCond(p, x.Block(), valOf).And(valOf(e)))
			}
		default:
			r = t.atomOf(v, keyIdx, stored)
		}
		t.val[v] = r
		return r
	}
	for _, b := range order {
		if b == t.root {
			t.cond[b] = newTT(t.n, true)
		} else {
			c := newTT(t.n, false)
			for _, p := range b.Preds {
				if t.back[[2]*ssa.BasicBlock{p, b}] {
					continue
				}
				if _, ok := t.cond[p]; !ok {
					continue // unreachable predecessor
				}
				c = c.Or(t.edgeCond(p, b, valOf))
			}
			t.cond[b] = c
		}
		// evaluate phis now that predecessors are known
		for _, in := range b.Instrs {
			if ph, ok := in.(*ssa.Phi); ok && isBool(ph.Type()) {
				valOf(ph)
			}
		}
	}
	t.valOf = valOf
	return t
}

func (t *Table) atomOf(v ssa.Value, keyIdx map[string]int, stored map[string]bool) TT {
	k := Key(v)
	if readsStored(v, stored, 0) {
		k = fmt.Sprintf("%s@%s", k, v.Name())
	}
	if _, ok := v.(*ssa.Phi); ok {
		k = fmt.Sprintf("loopphi:%s", v.Name())
	}
	i, ok := keyIdx[k]
	if !ok {
		// a bool value that was not discovered (not used in control flow):
		// cannot happen for values we ask about; be safe
		panic("tt: undiscovered atom " + k)
	}
	return atomTT(t.n, i)
}

func (t *Table) edgeCond(p, b *ssa.BasicBlock, valOf func(ssa.Value) TT) TT {
	pc, ok := t.cond[p]
	if !ok {
		return newTT(t.n, false)
	}
	if len(p.Instrs) > 0 {
		if ifi, ok := p.Instrs[len(p.Instrs)-1].(*ssa.If); ok {
			cv := valOf(ifi.Cond)
			r := newTT(t.n, false)
			if p.Succs[0] == b {
				r = r.Or(pc.And(cv))
			}
			if p.Succs[1] == b {
				r = r.Or(pc.And(cv.Not()))
			}
			return r
		}
	}
	return pc
}

func (t *Table) topo() []*ssa.BasicBlock {
	var order []*ssa.BasicBlock
	seen := map[*ssa.BasicBlock]bool{}
	var dfs func(b *ssa.BasicBlock)
	dfs = func(b *ssa.BasicBlock) {
		seen[b] = true
		for _, s := range b.Succs {
			if t.back[[2]*ssa.BasicBlock{b, s}] || seen[s] || t.include != nil && !t.include(s) {
				continue
			}
			dfs(s)
		}
		order = append(order, b)
	}
	dfs(t.root)
	for i, j := 0, len(order)-1; i < j; i, j = i+1, j-1 {
		order[i], order[j] = order[j], order[i]
	}
	return order
}

func isBool(t types.Type) bool {
	b, ok := t.Underlying().(*types.Basic)
	return ok && b.Info()&types.IsBoolean != 0
}

// readsStored reports whether the expression v loads from a path that the
// function also stores to (two syntactically equal expressions may then differ).
func readsStored(v ssa.Value, stored map[string]bool, d int) bool {
	if v == nil || d > 12 {
		return false
	}
	switch x := v.(type) {
	case *ssa.UnOp:
		if x.Op == token.MUL {
			if _, isAlloc := x.X.(*ssa.Alloc); !isAlloc && stored[Key(x.X)] {
				return true
			}
			if a, isAlloc := x.X.(*ssa.Alloc); isAlloc && stored[Key(a)] && a.Comment != "" {
				// a local variable that escapes to the heap (captured or address taken): assigned more than once?
				return storedTwice(a)
			}
		}
		return readsStored(x.X, stored, d+1)
	case *ssa.BinOp:
		return readsStored(x.X, stored, d+1) || readsStored(x.Y, stored, d+1)
	case *ssa.Call:
		for _, a := range x.Call.Args {
			if readsStored(a, stored, d+1) {
				return true
			}
		}
		if x.Call.IsInvoke() {
			return readsStored(x.Call.Value, stored, d+1)
		}
		return false
	case *ssa.FieldAddr:
		return readsStored(x.X, stored, d+1)
	case *ssa.Field:
		return readsStored(x.X, stored, d+1)
	case *ssa.Extract:
		return readsStored(x.Tuple, stored, d+1)
	case *ssa.Lookup:
		return readsStored(x.X, stored, d+1) || readsStored(x.Index, stored, d+1)
	case *ssa.Index:
		return readsStored(x.X, stored, d+1) || readsStored(x.Index, stored, d+1)
	case *ssa.IndexAddr:
		return readsStored(x.X, stored, d+1) || readsStored(x.Index, stored, d+1)
	case *ssa.TypeAssert:
		return readsStored(x.X, stored, d+1)
	case *ssa.Convert:
		return readsStored(x.X, stored, d+1)
	case *ssa.ChangeType:
		return readsStored(x.X, stored, d+1)
	case *ssa.ChangeInterface:
		return readsStored(x.X, stored, d+1)
	case *ssa.MakeInterface:
		return readsStored(x.X, stored, d+1)
	case *ssa.Slice:
		return readsStored(x.X, stored, d+1)
	}
	return false
}

func storedTwice(a *ssa.Alloc) bool {
	n := 0
	for _, r := range *a.Referrers() {
		if st, ok := r.(*ssa.Store); ok && st.Addr == a {
			n++
		}
	}
	return n > 1
}

func storedKeys(fn *ssa.Function) map[string]bool {
	m := map[string]bool{}
	for _, b := range fn.Blocks {
		for _, in := range b.Instrs {
			if s, ok := in.(*ssa.Store); ok {
				m[Key(s.Addr)] = true
			}
		}
	}
	return m
}

// valOf is kept for queries after extraction.
func (t *Table) ValueTT(v ssa.Value) TT { return t.valOf(v) }

// BlockCond is the condition under which block b executes (ignoring loops).
func (t *Table) BlockCond(b *ssa.BasicBlock) (TT, bool) {
	c, ok := t.cond[b]
	return c, ok
}

// EdgeCond is the condition under which control flows from p to its successor b
// (also valid for back edges).
func (t *Table) EdgeCond(p, b *ssa.BasicBlock) (TT, bool) {
	if _, ok := t.cond[p]; !ok {
		return TT{}, false
	}
	return t.edgeCond(p, b, t.valOf), true
}

// InstrCond is the condition under which instruction in executes.
func (t *Table) InstrCond(in ssa.Instruction) (TT, bool) { return t.BlockCond(in.Block()) }

// N is the number of atoms; AtomValue is the SSA value of atom i (nil for synthetic atoms).
func (t *Table) N() int { return t.n }
func (t *Table) AtomValue(i int) ssa.Value {
	if i < len(t.atomV) {
		return t.atomV[i]
	}
	return nil
}

// True / False constants of the table's width.
func (t *Table) True() TT  { return newTT(t.n, true) }
func (t *Table) False() TT { return newTT(t.n, false) }

// BoolResult is the table of the i-th (bool) result over all returns, and the
// condition under which the function returns at all.
func (t *Table) BoolResult(i int) (result TT, returns TT) {
	result, returns = newTT(t.n, false), newTT(t.n, false)
	for _, b := range t.Fn.Blocks {
		c, ok := t.cond[b]
		if !ok || len(b.Instrs) == 0 {
			continue
		}
		if ret, ok := b.Instrs[len(b.Instrs)-1].(*ssa.Return); ok && !IsRecoverBlock(b) {
			returns = returns.Or(c)
			res := Results(ret)
			if i < len(res) && isBool(res[i].Type()) {
				result = result.Or(c.And(t.valOf(res[i])))
			}
		}
	}
	return
}

// StripVersion removes the @tN suffix that distinguishes syntactically equal
// expressions whose operands may be overwritten in between.
func StripVersion(k string) string {
	if i := strings.LastIndex(k, "@t"); i >= 0 {
		rest := k[i+2:]
		if rest != "" && strings.Trim(rest, "0123456789") == "" {
			return k[:i]
		}
	}
	return k
}

// Binding maps specification variable names to atom indexes.
type Binding struct {
	Names []string // index = atom number; "" = unbound
}

// Bind assigns names to atoms: match[name] is a predicate on the atom key. An
// atom matched by several names, or a name matching several atoms, is an error.
func (t *Table) Bind(match map[string]func(key string) bool) (*Binding, error) {
	b := &Binding{Names: make([]string, t.n)}
	names := make([]string, 0, len(match))
	for n := range match {
		names = append(names, n)
	}
	sort.Strings(names)
	used := map[string]int{}
	for i, k := range t.Atoms {
		for _, n := range names {
			if match[n](k) || match[n](StripVersion(k)) {
				if b.Names[i] != "" {
					return nil, fmt.Errorf("atom %q matches both %s and %s", k, b.Names[i], n)
				}
				b.Names[i] = n
				used[n]++
			}
		}
	}
	for _, n := range names {
		if used[n] == 0 {
			return nil, fmt.Errorf("no atom found for specification variable %q (atoms: %s)", n, strings.Join(t.Atoms, " ; "))
		}
		if used[n] > 1 {
			return nil, fmt.Errorf("%d atoms match specification variable %q (atoms: %s)", used[n], n, strings.Join(t.Atoms, " ; "))
		}
	}
	return b, nil
}

// Compare checks got against spec on every row. Unbound atoms must not
// influence got on any row (under care). care restricts the rows compared
// (nil = all rows). It returns a description of the first differing row.
func (t *Table) Compare(got TT, b *Binding, spec func(v map[string]bool) bool, care func(v map[string]bool) bool) (ok bool, diff string, rows int) {
	n := t.n
	total := 1 << uint(n)
	for r := 0; r < total; r++ {
		v := map[string]bool{}
		for i := 0; i < n; i++ {
			if b.Names[i] != "" {
				v[b.Names[i]] = r>>uint(i)&1 == 1
			}
		}
		if care != nil && !care(v) {
			continue
		}
		rows++
		want := spec(v)
		if got.Row(r) != want {
			var parts []string
			for i := 0; i < n; i++ {
				nm := b.Names[i]
				if nm == "" {
					nm = "«" + t.Atoms[i] + "»"
				}
				parts = append(parts, fmt.Sprintf("%s=%v", nm, r>>uint(i)&1 == 1))
			}
			return false, fmt.Sprintf("row {%s}: code gives %v, specification %v", strings.Join(parts, " "), got.Row(r), want), rows
		}
	}
	return true, "", rows
}

// CompareUnder is Compare restricted to the rows where under is true.
func (t *Table) CompareUnder(got, under TT, b *Binding, spec func(v map[string]bool) bool) (ok bool, diff string, rows int) {
	n := t.n
	total := 1 << uint(n)
	for r := 0; r < total; r++ {
		if !under.Row(r) {
			continue
		}
		v := map[string]bool{}
		for i := 0; i < n; i++ {
			if b.Names[i] != "" {
				v[b.Names[i]] = r>>uint(i)&1 == 1
			}
		}
		rows++
		want := spec(v)
		if got.Row(r) != want {
			var parts []string
			for i := 0; i < n; i++ {
				nm := b.Names[i]
				if nm == "" {
					nm = "«" + t.Atoms[i] + "»"
				}
				parts = append(parts, fmt.Sprintf("%s=%v", nm, r>>uint(i)&1 == 1))
			}
			return false, fmt.Sprintf("row {%s}: code gives %v, specification %v", strings.Join(parts, " "), got.Row(r), want), rows
		}
	}
	return true, "", rows
}

// Render lists the rows of a table where it is true, in terms of atom keys (for evidence).
func (t *Table) Render(tt TT, max int) string {
	var rows []string
	total := 1 << uint(t.n)
	for r := 0; r < total && len(rows) < max; r++ {
		if tt.Row(r) {
			var parts []string
			for i := 0; i < t.n; i++ {
				if r>>uint(i)&1 == 1 {
					parts = append(parts, fmt.Sprint(i))
				} else {
					parts = append(parts, "!"+fmt.Sprint(i))
				}
			}
			rows = append(rows, strings.Join(parts, "&"))
		}
	}
	return strings.Join(rows, " | ")
}

// ReturnClasses groups the returns of the function by classify and gives, per
// class, the condition under which a return of that class executes.
func (t *Table) ReturnClasses(classify func(*ssa.Return) string) map[string]TT {
	out := map[string]TT{}
	for _, b := range t.Fn.Blocks {
		c, ok := t.cond[b]
		if !ok || len(b.Instrs) == 0 {
			continue
		}
		if ret, ok := b.Instrs[len(b.Instrs)-1].(*ssa.Return); ok && !IsRecoverBlock(b) {
			k := classify(ret)
			if cur, ok := out[k]; ok {
				out[k] = cur.Or(c)
			} else {
				out[k] = c
			}
		}
	}
	return out
}

// CompareClasses checks that on every row exactly the class named by spec
// returns. spec may return "" for rows where the function may do anything.
func (t *Table) CompareClasses(classes map[string]TT, b *Binding, spec func(v map[string]bool) string) (ok bool, diff string, rows int) {
	total := 1 << uint(t.n)
	names := make([]string, 0, len(classes))
	for k := range classes {
		names = append(names, k)
	}
	sort.Strings(names)
	for r := 0; r < total; r++ {
		v := map[string]bool{}
		for i := 0; i < t.n; i++ {
			if b.Names[i] != "" {
				v[b.Names[i]] = r>>uint(i)&1 == 1
			}
		}
		want := spec(v)
		if want == "" {
			continue
		}
		rows++
		var got []string
		for _, k := range names {
			if classes[k].Row(r) {
				got = append(got, k)
			}
		}
		if len(got) != 1 || got[0] != want {
			var parts []string
			for i := 0; i < t.n; i++ {
				nm := b.Names[i]
				if nm == "" {
					nm = "«" + t.Atoms[i] + "»"
				}
				parts = append(parts, fmt.Sprintf("%s=%v", nm, r>>uint(i)&1 == 1))
			}
			return false, fmt.Sprintf("row {%s}: code returns %v, specification %q", strings.Join(parts, " "), got, want), rows
		}
	}
	return true, "", rows
}
