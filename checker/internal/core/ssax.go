package core

import (
	"fmt"
	"go/constant"
	"go/token"
	"go/types"
	"sort"
	"strings"

	"golang.org/x/tools/go/ssa"
)

// ---------------------------------------------------------------------------
// callee identity

// CalleeObj returns the *types.Func a call resolves to statically: the method
// of an interface for invoke-mode calls, the declared function or method for
// static calls, nil for calls of function values and builtins.
func CalleeObj(c *ssa.CallCommon) *types.Func {
	if c.IsInvoke() {
		return c.Method
	}
	if f := c.StaticCallee(); f != nil {
		if o, ok := f.Object().(*types.Func); ok {
			return o
		}
		// instantiation of a generic: report origin
		if f.Origin() != nil {
			if o, ok := f.Origin().Object().(*types.Func); ok {
				return o
			}
		}
	}
	return nil
}

// CalleeName renders the resolved callee as "<short pkg>.(T).m" / "pkg.f", or
// "builtin:append", or "dynamic".
func CalleeName(c *ssa.CallCommon) string {
	if b, ok := c.Value.(*ssa.Builtin); ok {
		return "builtin:" + b.Name()
	}
	if o := CalleeObj(c); o != nil {
		return ObjName(o)
	}
	if f := c.StaticCallee(); f != nil {
		return FuncName(f)
	}
	return "dynamic"
}

// ObjName renders a types.Func as "<pkg path short>.(Recv).Name".
func ObjName(o *types.Func) string {
	if o == nil {
		return "<nil>"
	}
	s := o.FullName()
	return strings.ReplaceAll(s, Module+"/pkg/", "")
}

// CallArgs returns the arguments of a call without the receiver.
func CallArgs(c *ssa.CallCommon) []ssa.Value {
	if c.IsInvoke() {
		return c.Args
	}
	if sig, ok := c.Value.Type().Underlying().(*types.Signature); ok && sig.Recv() != nil {
		if len(c.Args) > 0 {
			return c.Args[1:]
		}
	}
	return c.Args
}

// CallRecv returns the receiver of a method call, or nil.
func CallRecv(c *ssa.CallCommon) ssa.Value {
	if c.IsInvoke() {
		return c.Value
	}
	if sig, ok := c.Value.Type().Underlying().(*types.Signature); ok && sig.Recv() != nil && len(c.Args) > 0 {
		return c.Args[0]
	}
	return nil
}

// Site is one call instruction.
type Site struct {
	Fn    *ssa.Function
	Instr ssa.CallInstruction
}

// Common is shorthand.
func (s Site) Common() *ssa.CallCommon { return s.Instr.Common() }

// Calls lists the call instructions (call, go, defer) of fn in block order.
// With nested=true, the anonymous functions of fn are included.
func Calls(fn *ssa.Function, nested bool) []Site {
	var out []Site
	var walk func(f *ssa.Function)
	walk = func(f *ssa.Function) {
		for _, b := range f.Blocks {
			for _, in := range b.Instrs {
				if c, ok := in.(ssa.CallInstruction); ok {
					out = append(out, Site{f, c})
				}
			}
		}
		if nested {
			for _, a := range f.AnonFuncs {
				walk(a)
			}
		}
	}
	if fn != nil {
		walk(fn)
	}
	return out
}

// CallsTo filters Calls by resolved callee.
func CallsTo(fn *ssa.Function, nested bool, objs ...*types.Func) []Site {
	var out []Site
	for _, s := range Calls(fn, nested) {
		o := CalleeObj(s.Common())
		if o == nil {
			continue
		}
		for _, want := range objs {
			if want != nil && (o == want || o.Origin() == want) {
				out = append(out, s)
				break
			}
		}
	}
	return out
}

// CallsNamed filters Calls by the rendered callee name suffix (used for
// callees outside the repository, e.g. "sort.Strings", "(*sync.Mutex).Lock").
func CallsNamed(fn *ssa.Function, nested bool, names ...string) []Site {
	var out []Site
	for _, s := range Calls(fn, nested) {
		n := CalleeName(s.Common())
		for _, want := range names {
			if n == want {
				out = append(out, s)
				break
			}
		}
	}
	return out
}

// ---------------------------------------------------------------------------
// CFG path queries (path-insensitive)

// InstrIndex returns the index of in inside its block.
func InstrIndex(in ssa.Instruction) int {
	for i, x := range in.Block().Instrs {
		if x == in {
			return i
		}
	}
	return -1
}

// PathQuery searches a CFG path.
type PathQuery struct {
	Fn *ssa.Function
	// Start: nil means function entry; otherwise search starts right after it.
	Start ssa.Instruction
	// Target reports instructions that end the search successfully.
	Target func(ssa.Instruction) bool
	// Barrier reports instructions a path must not cross.
	Barrier func(ssa.Instruction) bool
	// EdgeOK, if set, can veto CFG edges (from block, successor index).
	EdgeOK func(from *ssa.BasicBlock, succ int) bool
}

// Find returns a witness path (list of blocks, last instruction reached) from
// Start to a Target that crosses no Barrier, or nil.
func (q PathQuery) Find() *PathWitness {
	if q.Fn == nil || len(q.Fn.Blocks) == 0 {
		return nil
	}
	type node struct {
		b    *ssa.BasicBlock
		from int
		prev *node
	}
	visited := map[*ssa.BasicBlock]bool{}
	var queue []*node
	if q.Start == nil {
		queue = append(queue, &node{q.Fn.Blocks[0], 0, nil})
		visited[q.Fn.Blocks[0]] = true
	} else {
		// the start block is not marked visited: it may be re-entered from its
		// beginning through a loop
		queue = append(queue, &node{q.Start.Block(), InstrIndex(q.Start) + 1, nil})
	}
	for len(queue) > 0 {
		s := queue[0]
		queue = queue[1:]
		blocked := false
		for i := s.from; i < len(s.b.Instrs); i++ {
			in := s.b.Instrs[i]
			if q.Target != nil && q.Target(in) {
				w := &PathWitness{End: in}
				for n := s; n != nil; n = n.prev {
					w.Blocks = append([]*ssa.BasicBlock{n.b}, w.Blocks...)
				}
				return w
			}
			if q.Barrier != nil && q.Barrier(in) {
				blocked = true
				break
			}
		}
		if blocked {
			continue
		}
		for k, succ := range s.b.Succs {
			if q.EdgeOK != nil && !q.EdgeOK(s.b, k) {
				continue
			}
			if !visited[succ] {
				visited[succ] = true
				queue = append(queue, &node{succ, 0, s})
			}
		}
	}
	return nil
}

// PathWitness is a CFG path found by PathQuery.
type PathWitness struct {
	Blocks []*ssa.BasicBlock
	End    ssa.Instruction
}

// Describe renders the witness as block indices with the source lines of the
// branch conditions taken.
func (w *PathWitness) Describe(e *Env) string {
	if w == nil {
		return ""
	}
	var parts []string
	for _, b := range w.Blocks {
		lbl := fmt.Sprintf("b%d", b.Index)
		if b.Comment != "" {
			lbl += "(" + b.Comment + ")"
		}
		for _, in := range b.Instrs {
			if p := in.Pos(); p.IsValid() {
				lbl += "@" + fmt.Sprint(e.Fset.Position(p).Line)
				break
			}
		}
		parts = append(parts, lbl)
	}
	return strings.Join(parts, " -> ") + " => " + e.InstrPos(w.End)
}

// IsReturn reports a return instruction.
func IsReturn(in ssa.Instruction) bool { _, ok := in.(*ssa.Return); return ok }

// MustPrecede: every path from entry to `b` crosses an instruction satisfying a.
// Returns a counterexample path or nil.
func MustPrecede(fn *ssa.Function, a func(ssa.Instruction) bool, b func(ssa.Instruction) bool) *PathWitness {
	return PathQuery{Fn: fn, Target: b, Barrier: a}.Find()
}

// MustFollow: every path from `start` to a return crosses an instruction
// satisfying f. Returns a counterexample path or nil.
func MustFollow(fn *ssa.Function, start ssa.Instruction, f func(ssa.Instruction) bool) *PathWitness {
	return PathQuery{Fn: fn, Start: start, Target: IsReturn, Barrier: f}.Find()
}

// Reaches: some path from start (nil = entry) reaches target.
func Reaches(fn *ssa.Function, start ssa.Instruction, target func(ssa.Instruction) bool) *PathWitness {
	return PathQuery{Fn: fn, Start: start, Target: target}.Find()
}

// IsCallTo builds an instruction predicate for calls (not defers/go) to objs.
func IsCallTo(objs ...*types.Func) func(ssa.Instruction) bool {
	return func(in ssa.Instruction) bool {
		c, ok := in.(*ssa.Call)
		if !ok {
			return false
		}
		o := CalleeObj(&c.Call)
		if o == nil {
			return false
		}
		for _, w := range objs {
			if w != nil && (o == w || o.Origin() == w) {
				return true
			}
		}
		return false
	}
}

// IsCallOrDeferTo is IsCallTo that also accepts a `defer` of the callee.
func IsCallOrDeferTo(objs ...*types.Func) func(ssa.Instruction) bool {
	return func(in ssa.Instruction) bool {
		c, ok := in.(ssa.CallInstruction)
		if !ok {
			return false
		}
		if _, isgo := in.(*ssa.Go); isgo {
			return false
		}
		o := CalleeObj(c.Common())
		if o == nil {
			return false
		}
		for _, w := range objs {
			if w != nil && (o == w || o.Origin() == w) {
				return true
			}
		}
		return false
	}
}

// IsCallNamed builds a predicate on rendered callee names.
func IsCallNamed(names ...string) func(ssa.Instruction) bool {
	return func(in ssa.Instruction) bool {
		c, ok := in.(*ssa.Call)
		if !ok {
			return false
		}
		n := CalleeName(&c.Call)
		for _, w := range names {
			if n == w {
				return true
			}
		}
		return false
	}
}

// ---------------------------------------------------------------------------
// branch conditions

// CondEdge describes that block B is entered only through edge (If, branch).
type CondEdge struct {
	If     *ssa.If
	Branch bool // true edge or false edge
}

// ControllingEdges returns, for block b, the (If, branch) pairs such that every
// path from entry to b takes that edge: computed with dominators: b is
// dominated by the successor block of the edge and that successor has the If
// block as its only predecessor.
func ControllingEdges(b *ssa.BasicBlock) []CondEdge {
	var out []CondEdge
	for d := b; d != nil; d = d.Idom() {
		if len(d.Preds) != 1 {
			continue
		}
		p := d.Preds[0]
		if len(p.Instrs) == 0 {
			continue
		}
		ifi, ok := p.Instrs[len(p.Instrs)-1].(*ssa.If)
		if !ok {
			continue
		}
		if p.Succs[0] == d && p.Succs[1] != d {
			out = append(out, CondEdge{ifi, true})
		} else if p.Succs[1] == d && p.Succs[0] != d {
			out = append(out, CondEdge{ifi, false})
		}
	}
	return out
}

// ---------------------------------------------------------------------------
// value rendering (canonical structural keys)

// Key renders an SSA value as a structural expression, independent of register
// names, so that the same source expression evaluated twice has the same key.
func Key(v ssa.Value) string { return keyDepth(v, 0) }

func keyDepth(v ssa.Value, d int) string {
	if v == nil {
		return "<nil>"
	}
	if d > 12 {
		return "…"
	}
	switch v := v.(type) {
	case *ssa.Const:
		if v.Value == nil {
			return "nil"
		}
		if v.Value.Kind() == constant.String {
			return fmt.Sprintf("%q", constant.StringVal(v.Value))
		}
		return v.Value.ExactString()
	case *ssa.Parameter:
		return ParamName(v)
	case *ssa.FreeVar:
		return FreeVarName(v)
	case *ssa.Global:
		return v.Name()
	case *ssa.Function:
		return "func:" + FuncName(v)
	case *ssa.Builtin:
		return "builtin:" + v.Name()
	case *ssa.FieldAddr:
		return keyDepth(v.X, d+1) + "." + fieldName(v.X.Type(), v.Field)
	case *ssa.Field:
		return keyDepth(v.X, d+1) + "." + fieldNameT(v.X.Type(), v.Field)
	case *ssa.UnOp:
		switch v.Op {
		case token.MUL:
			// load: transparent so that x.f reads as a path
			return keyDepth(v.X, d+1)
		case token.NOT:
			return "!" + keyDepth(v.X, d+1)
		}
		return v.Op.String() + keyDepth(v.X, d+1)
	case *ssa.BinOp:
		return "(" + keyDepth(v.X, d+1) + " " + v.Op.String() + " " + keyDepth(v.Y, d+1) + ")"
	case *ssa.Call:
		var args []string
		for _, a := range v.Call.Args {
			args = append(args, keyDepth(a, d+1))
		}
		if v.Call.IsInvoke() {
			return keyDepth(v.Call.Value, d+1) + "." + v.Call.Method.Name() + "(" + strings.Join(args, ", ") + ")"
		}
		name := CalleeName(&v.Call)
		if name == "dynamic" {
			name = keyDepth(v.Call.Value, d+1)
		}
		return name + "(" + strings.Join(args, ", ") + ")"
	case *ssa.Extract:
		return keyDepth(v.Tuple, d+1) + "#" + fmt.Sprint(v.Index)
	case *ssa.Lookup:
		s := keyDepth(v.X, d+1) + "[" + keyDepth(v.Index, d+1) + "]"
		if v.CommaOk {
			s += ",ok"
		}
		return s
	case *ssa.Index:
		return keyDepth(v.X, d+1) + "[" + keyDepth(v.Index, d+1) + "]"
	case *ssa.IndexAddr:
		return keyDepth(v.X, d+1) + "[" + keyDepth(v.Index, d+1) + "]"
	case *ssa.TypeAssert:
		s := keyDepth(v.X, d+1) + ".(" + types.TypeString(v.AssertedType, shortQual) + ")"
		if v.CommaOk {
			s += ",ok"
		}
		return s
	case *ssa.Convert:
		return keyDepth(v.X, d+1)
	case *ssa.ChangeType:
		return keyDepth(v.X, d+1)
	case *ssa.ChangeInterface:
		return keyDepth(v.X, d+1)
	case *ssa.MakeInterface:
		return keyDepth(v.X, d+1)
	case *ssa.Slice:
		return keyDepth(v.X, d+1) + "[" + keyDepth(v.Low, d+1) + ":" + keyDepth(v.High, d+1) + "]"
	case *ssa.Alloc:
		if v.Comment != "" {
			// a parameter spilled to the stack carries the parameter's name: use its reviewed name
			if fn := v.Parent(); fn != nil {
				for _, q := range fn.Params {
					if q.Name() == v.Comment {
						return "&" + ParamName(q)
					}
				}
			}
			return "&" + v.Comment
		}
		return "&alloc"
	case *ssa.Phi:
		var parts []string
		for _, e := range v.Edges {
			parts = append(parts, keyDepth(e, d+3))
		}
		sort.Strings(parts)
		return "phi{" + strings.Join(parts, "|") + "}"
	case *ssa.MakeClosure:
		return "closure:" + FuncName(v.Fn.(*ssa.Function))
	case *ssa.Next:
		return "next(" + keyDepth(v.Iter, d+1) + ")"
	case *ssa.Range:
		return "range(" + keyDepth(v.X, d+1) + ")"
	case *ssa.MakeMap:
		return "makemap"
	case *ssa.MakeSlice:
		return "makeslice"
	}
	return fmt.Sprintf("%T", v)
}

func shortQual(p *types.Package) string {
	return strings.TrimPrefix(p.Path(), Module+"/pkg/")
}

func fieldName(ptrT types.Type, idx int) string {
	t := ptrT.Underlying()
	if p, ok := t.(*types.Pointer); ok {
		t = p.Elem().Underlying()
	}
	if st, ok := t.(*types.Struct); ok && idx < st.NumFields() {
		return st.Field(idx).Name()
	}
	return fmt.Sprintf("f%d", idx)
}

func fieldNameT(t types.Type, idx int) string {
	if st, ok := t.Underlying().(*types.Struct); ok && idx < st.NumFields() {
		return st.Field(idx).Name()
	}
	return fmt.Sprintf("f%d", idx)
}

// FieldOf returns the (struct named type, field name) an address points into
// if v is a FieldAddr (directly), else ("","").
func FieldOf(v ssa.Value) (owner string, field string) {
	fa, ok := v.(*ssa.FieldAddr)
	if !ok {
		return "", ""
	}
	t := fa.X.Type()
	if p, ok := t.Underlying().(*types.Pointer); ok {
		t = p.Elem()
	}
	name := types.TypeString(t, shortQual)
	return name, fieldName(fa.X.Type(), fa.Field)
}

// IsConstBool reports whether v is the boolean constant b.
func IsConstBool(v ssa.Value, b bool) bool {
	c, ok := v.(*ssa.Const)
	if !ok || c.Value == nil || c.Value.Kind() != constant.Bool {
		return false
	}
	return constant.BoolVal(c.Value) == b
}

// IsConstString reports whether v is the given string constant.
func IsConstString(v ssa.Value, s string) bool {
	c, ok := v.(*ssa.Const)
	if !ok || c.Value == nil || c.Value.Kind() != constant.String {
		return false
	}
	return constant.StringVal(c.Value) == s
}

// IsNilConst reports a nil constant.
func IsNilConst(v ssa.Value) bool {
	c, ok := v.(*ssa.Const)
	return ok && c.Value == nil
}

// Unwrap strips conversions and interface boxing.
func Unwrap(v ssa.Value) ssa.Value {
	for {
		switch x := v.(type) {
		case *ssa.Convert:
			v = x.X
		case *ssa.ChangeType:
			v = x.X
		case *ssa.ChangeInterface:
			v = x.X
		case *ssa.MakeInterface:
			v = x.X
		default:
			return v
		}
	}
}

// Results returns the result values of a return, looking through the spill
// go/ssa introduces in functions with defers (`*t0 = v; rundefers; return *t0`).
func Results(ret *ssa.Return) []ssa.Value {
	out := make([]ssa.Value, len(ret.Results))
	for i, r := range ret.Results {
		out[i] = r
		u, ok := r.(*ssa.UnOp)
		if !ok || u.Op != token.MUL {
			continue
		}
		al, ok := u.X.(*ssa.Alloc)
		if !ok {
			continue
		}
		instrs := ret.Block().Instrs
		for j := len(instrs) - 1; j >= 0; j-- {
			if st, ok := instrs[j].(*ssa.Store); ok && st.Addr == al {
				out[i] = st.Val
				break
			}
		}
	}
	return out
}

// IsRecoverBlock reports the synthetic recover block of a function with defers.
func IsRecoverBlock(b *ssa.BasicBlock) bool {
	return b.Parent().Recover == b
}

// Returns lists the return instructions of fn, skipping the recover block.
func Returns(fn *ssa.Function) []*ssa.Return {
	var out []*ssa.Return
	for _, b := range fn.Blocks {
		if IsRecoverBlock(b) || len(b.Instrs) == 0 {
			continue
		}
		if r, ok := b.Instrs[len(b.Instrs)-1].(*ssa.Return); ok {
			out = append(out, r)
		}
	}
	return out
}

// ParamName is the name rules refer to a parameter by: the name it had on the
// reviewed tree (params_gen.go), so that renaming a parameter in the repository
// does not change any key. Unknown functions use the current name.
func ParamName(p *ssa.Parameter) string {
	fn := p.Parent()
	if fn != nil {
		if names, ok := paramAlias[FuncName(fn)]; ok {
			for i, q := range fn.Params {
				if q == p && i < len(names) && len(names) == len(fn.Params) {
					return names[i]
				}
			}
		}
	}
	return p.Name()
}

// FreeVarName: same for captured variables of closures.
func FreeVarName(v *ssa.FreeVar) string {
	fn := v.Parent()
	if fn != nil {
		if names, ok := freeVarAlias[FuncName(fn)]; ok {
			for i, q := range fn.FreeVars {
				if q == v && i < len(names) && len(names) == len(fn.FreeVars) {
					return names[i]
				}
			}
		}
	}
	return v.Name()
}
