package core

import (
	"go/types"

	"golang.org/x/tools/go/ssa"
)

// Loop is a natural loop of the CFG.
type Loop struct {
	Header *ssa.BasicBlock
	Latch  []*ssa.BasicBlock // sources of the back edges
	Blocks map[*ssa.BasicBlock]bool
}

// Loops computes the natural loops of fn (one per header; back edges to the
// same header are merged).
func Loops(fn *ssa.Function) []*Loop {
	by := map[*ssa.BasicBlock]*Loop{}
	var out []*Loop
	for _, b := range fn.Blocks {
		for _, s := range b.Succs {
			if !s.Dominates(b) {
				continue
			}
			l := by[s]
			if l == nil {
				l = &Loop{Header: s, Blocks: map[*ssa.BasicBlock]bool{s: true}}
				by[s] = l
				out = append(out, l)
			}
			l.Latch = append(l.Latch, b)
			// blocks that reach b without passing through the header
			stack := []*ssa.BasicBlock{b}
			for len(stack) > 0 {
				x := stack[len(stack)-1]
				stack = stack[:len(stack)-1]
				if l.Blocks[x] {
					continue
				}
				l.Blocks[x] = true
				stack = append(stack, x.Preds...)
			}
		}
	}
	return out
}

// InnermostLoop returns the smallest natural loop containing b, or nil.
func InnermostLoop(fn *ssa.Function, b *ssa.BasicBlock) *Loop {
	var best *Loop
	for _, l := range Loops(fn) {
		if l.Blocks[b] && (best == nil || len(l.Blocks) < len(best.Blocks)) {
			best = l
		}
	}
	return best
}

// Body returns the successor of the header that lies inside the loop (the
// first block of the body), or nil.
func (l *Loop) Body() *ssa.BasicBlock {
	for _, s := range l.Header.Succs {
		if l.Blocks[s] && s != l.Header {
			return s
		}
	}
	return nil
}

// CarriedPhi returns the header phi of the source variable `name` and the
// value it receives along the (single) back edge. When no phi has that name
// (the variable was renamed) and exactly one header phi is a bool, that one is taken.
func (l *Loop) CarriedPhi(name string) (*ssa.Phi, ssa.Value, *ssa.BasicBlock) {
	var named, bools []*ssa.Phi
	for _, in := range l.Header.Instrs {
		ph, ok := in.(*ssa.Phi)
		if !ok {
			break
		}
		if ph.Comment == name {
			named = append(named, ph)
		}
		if b, isBasic := ph.Type().Underlying().(*types.Basic); isBasic && b.Info()&types.IsBoolean != 0 {
			bools = append(bools, ph)
		}
	}
	cands := named
	if len(cands) == 0 && len(bools) == 1 {
		cands = bools
	}
	for _, ph := range cands {
		for i, p := range l.Header.Preds {
			if l.Blocks[p] && l.Header.Dominates(p) {
				return ph, ph.Edges[i], p
			}
		}
	}
	return nil, nil, nil
}
