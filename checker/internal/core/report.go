package core

import (
	"encoding/json"
	"fmt"
	"os"
	"path/filepath"
	"runtime/debug"
	"sort"
	"strings"
	"time"

	"golang.org/x/tools/go/ssa"
)

// Verdict of one obligation.
type Verdict string

const (
	Held          Verdict = "held"
	Violated      Verdict = "violated"
	Undecided     Verdict = "undecided"
	KnownFinding  Verdict = "known-finding"
	AnchorMissing Verdict = "anchor-missing"
	Failure       Verdict = "analysis-failure"
)

// Obligation is (rule, construct key) with its verdict.
type Obligation struct {
	Rule    string  `json:"rule"`
	Key     string  `json:"key"`
	Verdict Verdict `json:"verdict"`
	Site    string  `json:"site,omitempty"`
	Detail  string  `json:"detail,omitempty"`
}

// Rule is one static rule of a property.
type Rule struct {
	ID    string // e.g. "C01.read-tracked"
	Doc   string // what is checked and why it is necessary for the property
	Floor int    // minimum number of obligations confirmed by hand on the pinned tree
	// Thorough marks rules that only run in the thorough tier.
	Thorough bool
	// Late rules run after all other rules of the property and can ask which functions those anchored.
	Late bool
	Run  func(c *Ctx)
}

// Property groups the rules of one property.
type Property struct {
	ID          string
	Title       string
	Explanation string   // what a green check means
	NotDecided  []string // clauses that are not decided statically
	Assumptions []string
	Rules       []*Rule
}

// Ctx is handed to a rule.
type Ctx struct {
	*Env
	Tier  string
	rule  *Rule
	rep   *Report
	count int
}

// Report accumulates the result of checking one property.
type Report struct {
	Property *Property
	Tier     string
	Obls     []Obligation
	RuleN    map[string]int
	funcs    map[string]bool
	anchored map[string]bool
	leaf     map[string]bool
	deep     map[string]bool // touched by a rule that looks inside (wins over leaf)
	sites    int
}

func (c *Ctx) add(v Verdict, key, site, detail string) {
	c.count++
	c.rep.Obls = append(c.rep.Obls, Obligation{Rule: c.rule.ID, Key: key, Verdict: v, Site: site, Detail: detail})
}

// Held records a discharged obligation.
func (c *Ctx) Held(key, site, detail string) { c.add(Held, key, site, detail) }

// Violated records a violated obligation.
func (c *Ctx) Violated(key, site, detail string) { c.add(Violated, key, site, detail) }

// Undecided records an obligation the analysis cannot decide (fails the check).
func (c *Ctx) Undecided(key, site, detail string) { c.add(Undecided, key, site, detail) }

// Check records held/violated from a condition.
func (c *Ctx) Check(ok bool, key, site, heldDetail, violatedDetail string) bool {
	if ok {
		c.Held(key, site, heldDetail)
	} else {
		c.Violated(key, site, violatedDetail)
	}
	return ok
}

// Fn resolves an anchor function; a missing anchor is recorded and nil returned.
func (c *Ctx) Fn(short, name string) *ssa.Function {
	fn := c.Env.Func(short, name)
	if fn == nil || fn.Blocks == nil {
		c.add(AnchorMissing, short+"."+name, "", "anchor function not found (renamed, moved or deleted): the rule cannot be evaluated")
		return nil
	}
	c.Touch(fn)
	return fn
}

// MissingAnchor records an unresolved anchor of another kind (type, field, method).
func (c *Ctx) MissingAnchor(what string) {
	c.add(AnchorMissing, what, "", "anchor not found: the rule cannot be evaluated")
}

func pkgPathOf(f *ssa.Function) string {
	for f != nil && f.Parent() != nil {
		f = f.Parent()
	}
	if f == nil {
		return ""
	}
	if f.Pkg != nil {
		return f.Pkg.Pkg.Path()
	}
	if o := f.Origin(); o != nil && o.Pkg != nil {
		return o.Pkg.Pkg.Path()
	}
	return ""
}

// RuleID is the id of the running rule (its prefix is the property being checked).
func (c *Ctx) RuleID() string { return c.rule.ID }

// Anchored reports whether the rules that are not Late touched the named function (or one nested in it):
// the functions the hand-written rules of this property are about.
func (c *Ctx) Anchored(fnName string) bool {
	if c.rep.anchored == nil {
		return false
	}
	if c.rep.anchored[fnName] {
		return true
	}
	for k := range c.rep.anchored {
		if strings.HasPrefix(k, fnName+"$") {
			return true
		}
	}
	return false
}

// AnchorDepth bounds how far below the functions a property's rules touch the callee closure goes.
var AnchorDepth = 2

// wiringHubs are the functions that construct and connect every service of a runtime: being anchored
// does not make everything they reach part of a property (their own rows are compared).
var wiringHubs = map[string]bool{
	"controller/config.CreateWithConfig":                                   true,
	"controller/config.Create":                                             true,
	"(*controller/services.Services).setup":                                true,
	"(*controller/services.Services).withManager":                          true,
	"(*controller/services.Services).SetupWithManager":                     true,
	"(*controller/legacy.HAProxyController).configController":              true,
	"(*controller/legacy.HAProxyController).startServices":                 true,
	"(*controller/legacy.HAProxyController).Start":                         true,
	"(*controller/legacy.HAProxyController).createDefaultConverterOptions": true,
	"controller/launch.Run":                                                true,
}

// TouchLeaf counts fn as analysed and anchors it for the Late rules without anchoring what it calls
// (for functions that wire everything together, like the construction of the configuration).
func (c *Ctx) TouchLeaf(fn *ssa.Function) {
	if fn != nil {
		c.rep.funcs[FuncName(fn)] = true
		if c.rep.leaf == nil {
			c.rep.leaf = map[string]bool{}
		}
		c.rep.leaf[FuncName(fn)] = true
	}
}

// Touch counts fn as analysed.
func (c *Ctx) Touch(fn *ssa.Function) {
	if fn != nil {
		c.rep.funcs[FuncName(fn)] = true
		if c.rep.deep == nil {
			c.rep.deep = map[string]bool{}
		}
		c.rep.deep[FuncName(fn)] = true
	}
}

// Sites counts examined call sites / instructions.
func (c *Ctx) Sites(n int) { c.rep.sites += n }

// RunProperty evaluates all rules of p.
func RunProperty(env *Env, p *Property, tier string) *Report {
	rep := &Report{Property: p, Tier: tier, RuleN: map[string]int{}, funcs: map[string]bool{}}
	var ordered []*Rule
	for _, r := range p.Rules {
		if !r.Late {
			ordered = append(ordered, r)
		}
	}
	nEarly := len(ordered)
	for _, r := range p.Rules {
		if r.Late {
			ordered = append(ordered, r)
		}
	}
	for i, r := range ordered {
		if i == nEarly && nEarly < len(ordered) {
			// the functions the hand-written rules are about, and everything they call inside the repository
			rep.anchored = map[string]bool{}
			byName := map[string]*ssa.Function{}
			for _, f := range env.SrcFuncs() {
				byName[FuncName(f)] = f
			}
			cg := env.CallGraph()
			maxDepth := AnchorDepth
			if v := os.Getenv("HAPVERIF_ANCHOR_DEPTH"); v != "" {
				fmt.Sscanf(v, "%d", &maxDepth)
			}
			type item struct {
				f *ssa.Function
				d int
			}
			var stack []item
			depthOf := map[string]int{}
			push := func(f *ssa.Function, d int) {
				if f == nil {
					return
				}
				n := FuncName(f)
				if old, ok := depthOf[n]; ok && old <= d {
					return
				}
				if f.Pkg == nil && f.Parent() == nil {
					if o := f.Origin(); o == nil || o.Pkg == nil {
						return
					}
				}
				if !strings.HasPrefix(pkgPathOf(f), Module) {
					return
				}
				depthOf[n] = d
				rep.anchored[n] = true
				stack = append(stack, item{f, d})
				// the package initialiser (tables and defaults in package-level variables) of every package
				// that holds an anchored function
				if f.Pkg != nil {
					if ini := f.Pkg.Func("init"); ini != nil && !rep.anchored[FuncName(ini)] {
						rep.anchored[FuncName(ini)] = true
						depthOf[FuncName(ini)] = maxDepth // its closures only
						stack = append(stack, item{ini, maxDepth})
					}
				}
				if o := f.Origin(); o != nil {
					if old, ok := depthOf[FuncName(o)]; !ok || old > d {
						// an instantiation of a generic function: the tables are keyed by the generic
						rep.anchored[FuncName(o)] = true
						depthOf[FuncName(o)] = d
						stack = append(stack, item{o, d})
					}
				}
			}
			// a rule that touches a generic function touches its instantiations: only those are in the call graph
			instances := map[*ssa.Function][]*ssa.Function{}
			for f := range cg.Nodes {
				if f != nil {
					if o := f.Origin(); o != nil {
						instances[o] = append(instances[o], f)
					}
				}
			}
			for k := range rep.funcs {
				push(byName[k], 0)
				for _, inst := range instances[byName[k]] {
					push(inst, 0)
				}
			}
			for len(stack) > 0 {
				it := stack[len(stack)-1]
				stack = stack[:len(stack)-1]
				f := it.f
				for _, a := range f.AnonFuncs {
					push(a, it.d)
				}
				if rep.leaf[FuncName(f)] && !rep.deep[FuncName(f)] || wiringHubs[FuncName(f)] || it.d >= maxDepth {
					continue
				}
				if nd := cg.Nodes[f]; nd != nil {
					for _, e := range nd.Out {
						callee := e.Callee.Func
						// bound-method closures, thunks and wrappers are transparent
						for hops := 0; callee != nil && callee.Synthetic != "" && hops < 3; hops++ {
							next := (*ssa.Function)(nil)
							if nn := cg.Nodes[callee]; nn != nil && len(nn.Out) == 1 {
								next = nn.Out[0].Callee.Func
							}
							if next == nil {
								break
							}
							callee = next
						}
						push(callee, it.d+1)
					}
				}
			}
		}
		if i == nEarly && nEarly < len(ordered) && len(rep.anchored) < 25 {
			// the scope of the generated tables collapsed (call graph not built, rules stopped touching
			// functions): the table rules would pass vacuously
			rep.Obls = append(rep.Obls, Obligation{Rule: p.ID + ".anchored-scope", Key: "anchored scope", Verdict: Failure,
				Detail: fmt.Sprintf("only %d functions are anchored by the rules of this property: the generated tables would compare almost nothing", len(rep.anchored))})
		}
		if r.Thorough && tier != "thorough" {
			continue
		}
		c := &Ctx{Env: env, Tier: tier, rule: r, rep: rep}
		func() {
			defer func() {
				if x := recover(); x != nil {
					st := string(debug.Stack())
					if len(st) > 1500 {
						st = st[:1500]
					}
					c.add(Failure, "panic", "", fmt.Sprintf("analyser panicked: %v\n%s", x, st))
				}
			}()
			r.Run(c)
		}()
		rep.RuleN[r.ID] = c.count
		if c.count < r.Floor {
			c.add(Failure, "floor", "", fmt.Sprintf("rule matched %d construct(s), fewer than the %d confirmed by hand on the pinned tree: discovery shrank, the rule would pass vacuously", c.count, r.Floor))
		}
	}
	return rep
}

// ---------------------------------------------------------------------------
// known findings

// Finding is an entry of known_findings.json.
type Finding struct {
	Property string `json:"property"`
	Rule     string `json:"rule"`
	Key      string `json:"key"`
	Status   string `json:"status"` // "known" or "fixed"
	Commit   string `json:"commit,omitempty"`
	What     string `json:"what"`
}

// LoadFindings reads the committed findings file.
func LoadFindings(path string) ([]Finding, error) {
	b, err := os.ReadFile(path)
	if err != nil {
		if os.IsNotExist(err) {
			return nil, nil
		}
		return nil, err
	}
	var f []Finding
	if err := json.Unmarshal(b, &f); err != nil {
		return nil, fmt.Errorf("%s: %w", path, err)
	}
	return f, nil
}

// ApplyFindings downgrades violated obligations that are listed as known.
func (r *Report) ApplyFindings(fs []Finding) (known []Obligation) {
	for i := range r.Obls {
		o := &r.Obls[i]
		if o.Verdict != Violated {
			continue
		}
		for _, f := range fs {
			if f.Status == "known" && f.Property == r.Property.ID && f.Rule == o.Rule && f.Key == o.Key {
				o.Verdict = KnownFinding
				o.Detail = f.What + " || " + o.Detail
				known = append(known, *o)
				break
			}
		}
	}
	return known
}

// Funcs returns the names of the functions the rules analysed.
func (r *Report) Funcs() map[string]bool { return r.funcs }

// AnchoredFuncs is the scope of the generated tables (anchors and their bounded callee closure).
func (r *Report) AnchoredFuncs() map[string]bool { return r.anchored }

// Bad lists obligations that fail the check.
func (r *Report) Bad() []Obligation {
	var out []Obligation
	for _, o := range r.Obls {
		switch o.Verdict {
		case Held, KnownFinding:
		default:
			out = append(out, o)
		}
	}
	return out
}

// ---------------------------------------------------------------------------
// evidence

// Extra is attached to the evidence by the driver (sensitivity sweep etc).
type Extra map[string]interface{}

// WriteEvidence writes /verif/evidence/<id>.json and the violation replay files.
// It returns the replay paths of failing obligations (one per obligation).
func (r *Report) WriteEvidence(dir string, seed int64, wall time.Duration, extra Extra) ([]string, error) {
	if err := os.MkdirAll(filepath.Join(dir, "violations"), 0o755); err != nil {
		return nil, err
	}
	// remove stale replay files of this property
	old, _ := filepath.Glob(filepath.Join(dir, "violations", r.Property.ID+"-*.json"))
	for _, f := range old {
		os.Remove(f)
	}
	p := r.Property
	counts := map[Verdict]int{}
	keys := map[string]bool{}
	for _, o := range r.Obls {
		counts[o.Verdict]++
		keys[o.Rule+"|"+o.Key] = true
	}
	bad := r.Bad()
	var replays []string
	for i, o := range bad {
		path := filepath.Join(dir, "violations", fmt.Sprintf("%s-%03d.json", p.ID, i+1))
		kind := "violation"
		if o.Verdict != Violated {
			kind = "analysis-failure"
		}
		doc := ""
		for _, ru := range p.Rules {
			if ru.ID == o.Rule {
				doc = ru.Doc
			}
		}
		b, _ := json.MarshalIndent(map[string]interface{}{
			"property": p.ID, "kind": kind, "rule": o.Rule, "key": o.Key, "verdict": o.Verdict,
			"site": o.Site, "detail": o.Detail, "rationale": doc, "tier": r.Tier,
		}, "", " ")
		if err := os.WriteFile(path, b, 0o644); err != nil {
			return nil, err
		}
		replays = append(replays, path)
	}
	// samples: every failing/known obligation plus up to 3 held per rule
	var samples []Obligation
	perRule := map[string]int{}
	for _, o := range r.Obls {
		if o.Verdict != Held {
			samples = append(samples, o)
			continue
		}
		if perRule[o.Rule] < 3 {
			perRule[o.Rule]++
			samples = append(samples, o)
		}
	}
	type ruleInfo struct {
		ID          string `json:"id"`
		Doc         string `json:"doc"`
		Obligations int    `json:"obligations"`
		Floor       int    `json:"floor"`
	}
	var rules []ruleInfo
	for _, ru := range p.Rules {
		if ru.Thorough && r.Tier != "thorough" {
			continue
		}
		rules = append(rules, ruleInfo{ru.ID, ru.Doc, r.RuleN[ru.ID], ru.Floor})
	}
	var funcs []string
	for f := range r.funcs {
		funcs = append(funcs, f)
	}
	sort.Strings(funcs)
	cov := map[string]interface{}{
		"explanation":         p.Explanation,
		"not_decided":         p.NotDecided,
		"obligations":         len(r.Obls),
		"discharged":          counts[Held],
		"known_findings":      counts[KnownFinding],
		"evaluations":         len(r.Obls),
		"distinct_nontrivial": len(keys),
		"rule":                "one obligation per (rule, construct) where the construct is discovered from the resolved program (callee, field, function), never from a line; distinct = distinct (rule, construct key); every discovered construct is non-trivial because each is a site where the rule could be broken",
		"exhaustive":          true,
		"samples":             samples,
		"rules":               rules,
		"functions_analysed":  funcs,
		"n_functions":         len(funcs),
		"call_sites":          r.sites,
		"packages":            len(r.Obls) * 0,
		"checker_cmd":         "bin/hapverif check --property " + p.ID + " --tier " + r.Tier,
		"trusted_base":        []string{"go/types", "golang.org/x/tools/go/ssa", "golang.org/x/tools/go/callgraph/vta", "text/template/parse"},
	}
	for k, v := range extra {
		cov[k] = v
	}
	assumptions := p.Assumptions
	if assumptions == nil {
		assumptions = []string{}
	}
	if p.NotDecided == nil {
		cov["not_decided"] = []string{}
	}
	ev := map[string]interface{}{
		"property_id": p.ID,
		"tier":        r.Tier,
		"seed":        seed,
		"level":       "other",
		"coverage":    cov,
		"assumptions": assumptions,
		"wall_s":      wall.Seconds(),
		"violations":  len(bad),
	}
	b, err := json.MarshalIndent(ev, "", " ")
	if err != nil {
		return nil, err
	}
	if err := os.WriteFile(filepath.Join(dir, p.ID+".json"), b, 0o644); err != nil {
		return nil, err
	}
	return replays, nil
}

// Summary renders a one-line-per-rule summary.
func (r *Report) Summary() string {
	var sb strings.Builder
	by := map[string]map[Verdict]int{}
	for _, o := range r.Obls {
		if by[o.Rule] == nil {
			by[o.Rule] = map[Verdict]int{}
		}
		by[o.Rule][o.Verdict]++
	}
	for _, ru := range r.Property.Rules {
		m := by[ru.ID]
		if m == nil {
			continue
		}
		fmt.Fprintf(&sb, "  %-28s held=%d", ru.ID, m[Held])
		for _, v := range []Verdict{Violated, Undecided, KnownFinding, AnchorMissing, Failure} {
			if m[v] > 0 {
				fmt.Fprintf(&sb, " %s=%d", v, m[v])
			}
		}
		sb.WriteString("\n")
	}
	return sb.String()
}
